(* SysTheorems.v — step-level consequences of InvU / InvE used by C03, C04, C06, C07, C11, C12. *)
From Tramp Require Import Model.Base Model.Fee Model.Classify Model.Node Model.Provider Model.Sys.
From Tramp Require Import Proofs.FeeProofs Proofs.SysBasics Proofs.EntryProofs Proofs.SysEntry Proofs.SysShape.
From Coq Require Import ZifyBool ZifyNat ZifyN.

(* ---------- outputs of installing a lifecycle step ---------- *)
Lemma resps_number_calls b qs : resps (number_calls b qs) = [].
Proof. revert b; induction qs as [|q r IH]; intros b; cbn; auto. Qed.
Lemma resps_cancels l : resps (map OCancel l) = [].
Proof. induction l; cbn; auto. Qed.

Lemma apply_adv_outs s i a :
  snd (apply_adv s i a) = a_out a ++ number_calls (length (calls s)) (a_new a) ++ map OCancel (a_cancel a).
Proof. reflexivity. Qed.

Lemma apply_adv_resps s i a : resps (snd (apply_adv s i a)) = resps (a_out a).
Proof. rewrite apply_adv_outs, !resps_app, resps_number_calls, resps_cancels, !app_nil_r. reflexivity. Qed.

Lemma in_number_calls b qs cid q : In (OCall cid q) (number_calls b qs) -> In q qs.
Proof. revert b; induction qs as [|x r IH]; intros b; cbn; [auto|]. intros [H|H]; [inversion H; auto|right; eauto]. Qed.

Lemma apply_adv_calls s i a cid q :
  In (OCall cid q) (snd (apply_adv s i a)) -> In (OCall cid q) (a_out a) \/ In q (a_new a).
Proof.
  rewrite apply_adv_outs. intros H. apply in_app_or in H as [H|H]; [auto|].
  apply in_app_or in H as [H|H]; [right; eapply in_number_calls; eauto|].
  apply in_map_iff in H as (? & H & _). discriminate.
Qed.

(* ---------- C07: all HTLCs held for the hash get the identical response, in the same step, and the entry is gone ---------- *)
Definition held (c : cfg) (s : sys) (ev : event) : list htlc :=
  match entry_ (pl s) with Some e => listeners e | None => [] end.

Lemma fire_timers_resps : forall l e t l' e' o',
  fire_timers l e t = (l', e', o') ->
  resps o' = [] \/ exists en, e = Some en /\ e' = None /\ resps o' = map (fun h => OResp (hid h) r_tramp_fail) (listeners en).
Proof.
  assert (N : forall l t l' e' o', fire_timers l None t = (l', e', o') -> resps o' = []).
  { induction l as [|x r IH]; intros t l' e' o' H; unfold fire_timers in H; fold fire_timers in H; [inversion H; auto|].
    destruct (l_pc x); try (destruct (fire_timers r None t) as [[r' e1] o1] eqn:E2; inversion H; subst; exact (IH _ _ _ _ E2)).
    destruct (deadline <=? t); destruct (fire_timers r None t) as [[r' e1] o1] eqn:E2; inversion H; subst; cbn; exact (IH _ _ _ _ E2). }
  induction l as [|x r IH]; intros e t l' e' o' H; unfold fire_timers in H; fold fire_timers in H; [inversion H; auto|].
  destruct (l_pc x);
    try (destruct (fire_timers r e t) as [[r' e1] o1] eqn:E2; inversion H; subst; exact (IH _ _ _ _ _ E2)).
  destruct (deadline <=? t).
  - destruct e as [en|]; destruct (fire_timers r None t) as [[r' e1] o1] eqn:E2; inversion H; subst.
    + right. exists en. split; [reflexivity|]. split; [eapply fire_timers_none_entry; eauto|].
      rewrite resps_app, resps_resolve_outs, (N _ _ _ _ _ E2), app_nil_r. reflexivity.
    + left. cbn. exact (N _ _ _ _ _ E2).
  - destruct (fire_timers r e t) as [[r' e1] o1] eqn:E2; inversion H; subst; exact (IH _ _ _ _ _ E2).
Qed.

Theorem step_same_resolution c s ev :
  resps (snd (step c s ev)) = [] \/
  exists r, resps (snd (step c s ev)) = map (fun h => OResp (hid h) r) (held c s ev) /\ entry_ (pl (fst (step c s ev))) = None.
Proof.
  destruct ev; cbn [step]; unfold held; try (left; reflexivity).
  - (* EvHtlc: the HTLC joins the entry; nobody is answered by this segment *)
    destruct (entry_ (pl s)); left; reflexivity.
  - (* EvPoll *)
    destruct (find_select 0 (lcs (pl s))) as [[[i d] li]|] eqn:Hf; [|left; reflexivity].
    destruct (find_select_spec _ _ _ _ _ Hf) as (x & Hx & _). rewrite Nat.sub_0_r in Hx.
    rewrite apply_adv_resps.
    destruct (select_poll_answers c li (length (calls s)) (height s) (now s) d (entry_ (pl s)) sel (next_att (pl s))) as [HA|(en & r & E1 & E2 & E3)]; [left; exact HA|right].
    exists r. rewrite E3. split; [rewrite E1; reflexivity|].
    destruct (apply_adv_lcs s i (select_poll c li (length (calls s)) (height s) (now s) d (entry_ (pl s)) sel (next_att (pl s))) x Hx) as (_ & Hen & _). rewrite Hen. exact E2.
  - (* EvProcess *)
    destruct (nth_error (calls s) cid) as [cl|]; [|left; reflexivity]. destruct (c_st cl); try (left; reflexivity).
    destruct (node_exec (nd s) (c_rpc cl) f). left; reflexivity.
  - (* EvDeliver *)
    destruct (nth_error (calls s) cid) as [cl|]; [|left; reflexivity]. destruct (c_st cl); try (left; reflexivity).
    destruct (find_owner c 0 (lcs (pl s)) cid y sel (entry_ (pl s)) (length (calls s)) (height s) (now s) (next_att (pl s))) as [[i a]|] eqn:Hf; [|left; reflexivity].
    destruct (find_owner_spec _ _ _ _ _ _ _ _ _ _ _ _ _ Hf) as (x & Hx & _ & Hd). rewrite Nat.sub_0_r in Hx.
    rewrite apply_adv_resps.
    destruct (lc_deliver_answers _ _ _ _ _ _ _ _ _ _ _ _ Hd) as [HA|(en & r & E1 & E2 & E3)]; [left; exact HA|right].
    exists r. rewrite E1, E3. split; [reflexivity|].
    destruct (apply_adv_lcs (with_calls s (set_status cid Delivered (calls s))) i a x Hx) as (_ & Hen & _). rewrite Hen. exact E2.
  - (* EvPart *) destruct (nth_error (parts (nd s)) pid) as [[]|], st; left; reflexivity.
  - destruct (nth_error (calls s) cid) as [[q st]|]; [|left; reflexivity]. destruct q; try (left; reflexivity). destruct st; left; reflexivity.
  - destruct (nth_error (calls s) cid) as [[q st]|]; [|left; reflexivity]. destruct q; try (left; reflexivity). destruct st; left; reflexivity.
  - (* EvTick *)
    destruct (fire_timers (lcs (pl s)) (entry_ (pl s)) (now s + dt)) as [[l' e'] o'] eqn:Hf. cbn [fst snd].
    destruct (fire_timers_resps _ _ _ _ _ _ Hf) as [H|(en & E1 & E2 & E3)]; [left; exact H|right].
    exists r_tramp_fail. rewrite E1, E3. cbn. auto.
Qed.

(* the same at the granularity of the correspondence check: the arriving HTLC is among the ones answered together *)
Lemma e_handle_listeners' c e h : listeners (e_handle c e h) = h :: listeners e.
Proof.
  unfold e_handle, e_add. cbn [listeners].
  assert (F : forall x r, listeners (e_fail x r) = listeners x) by (intros x r; unfold e_fail; destruct (is_fail x); reflexivity).
  repeat match goal with |- context [if ?b then _ else _] => destruct b end; rewrite ?F; reflexivity.
Qed.

Theorem step_htlc_same_resolution c s h sel :
  resps (snd (step_htlc c s h sel)) = [] \/
  exists r, resps (snd (step_htlc c s h sel)) = map (fun x => OResp (hid x) r) (h :: held c s (EvHtlc h)) /\ entry_ (pl (fst (step_htlc c s h sel))) = None.
Proof.
  unfold step_htlc.
  assert (R1 : resps (snd (step c s (EvHtlc h))) = []) by (cbn [step]; destruct (entry_ (pl s)); reflexivity).
  assert (L1 : held c (fst (step c s (EvHtlc h))) (EvPoll sel) = h :: held c s (EvHtlc h)).
  { unfold held. cbn [step]. destruct (entry_ (pl s)); cbn [fst pl entry_]; rewrite e_handle_listeners'; reflexivity. }
  destruct (step c s (EvHtlc h)) as [s1 o1]. cbn [fst snd] in *.
  pose proof (step_same_resolution c s1 (EvPoll sel)) as H2.
  destruct (step c s1 (EvPoll sel)) as [s2 o2]. cbn [fst snd] in *.
  rewrite resps_app, R1. cbn [app].
  destruct H2 as [H2|(r & H2 & H3)]; [left; exact H2|right]. exists r. rewrite <- L1. auto.
Qed.

(* ---------- which transitions issue which RPCs ---------- *)
Definition is_attempt_start (q : rpc) : bool :=
  match q with QWriteState CreateOrReplace None (DPending _ _) => true | _ => false end.
Definition is_pay (q : rpc) : bool := match q with QPay _ _ _ _ _ => true | _ => false end.

Lemma fire_timers_no_calls : forall l e t l' e' o' cid q, fire_timers l e t = (l', e', o') -> ~ In (OCall cid q) o'.
Proof.
  induction l as [|x r IH]; intros e t l' e' o' cid q H; unfold fire_timers in H; fold fire_timers in H; [inversion H; auto|].
  destruct (l_pc x);
    try (destruct (fire_timers r e t) as [[r' e1] o1] eqn:E2; inversion H; subst; exact (IH _ _ _ _ _ _ _ E2)).
  destruct (deadline <=? t).
  - destruct e as [en|]; destruct (fire_timers r None t) as [[r' e1] o1] eqn:E2; inversion H; subst; intros Hin.
    + apply in_app_or in Hin as [Hin|Hin]; [unfold resolve_outs in Hin; apply in_map_iff in Hin as (? & Hq & _); discriminate|exact (IH _ _ _ _ _ _ _ E2 Hin)].
    + destruct Hin as [Hin|Hin]; [discriminate|exact (IH _ _ _ _ _ _ _ E2 Hin)].
  - destruct (fire_timers r e t) as [[r' e1] o1] eqn:E2; inversion H; subst; exact (IH _ _ _ _ _ _ _ E2).
Qed.

Lemma do_resolve_out_no_call e r p qs cn na cid q : ~ In (OCall cid q) (a_out (do_resolve e r p qs [] cn na)).
Proof.
  unfold do_resolve. destruct e as [en|]; cbn [a_out]; intros H.
  - rewrite app_nil_r in H. unfold resolve_outs in H. apply in_map_iff in H as (? & H & _). discriminate.
  - destruct H as [H|H]; [discriminate|destruct H].
Qed.

Lemma do_resolve_new e r p qs cn na q : In q (a_new (do_resolve e r p qs [] cn na)) -> In q qs.
Proof. unfold do_resolve. destruct e; cbn; tauto. Qed.

(* the select!: the only RPC it can issue is the in-flight marker of a new attempt, computed from the entry as it is now *)
Lemma select_poll_new c li base hgt tnow d e sel na q :
  In q (a_new (select_poll c li base hgt tnow d e sel na)) ->
  exists en fq, e = Some en /\ rdy_q en = true /\
    select_poll c li base hgt tnow d e sel na = go_pay c li base hgt tnow (Some (set_queues en false fq)) na /\
    (forall r, fq = Some r -> fail_q en = Some r) /\
    q = QWriteState CreateOrReplace None (DPending na tnow).
Proof.
  unfold select_poll. destruct e as [en|]; [|intros []].
  destruct (rdy_q en) eqn:Eq, (fail_q en) as [r|] eqn:Ef.
  - destruct sel; intros H.
    + exists en, (Some r). unfold go_pay in H. cbn [a_new] in H. destruct H as [<-|[]]. repeat split; auto. intros r0 Hr0; inversion Hr0; subst; exact Ef.
    + apply do_resolve_new in H. destruct H.
  - intros H. exists en, None. unfold go_pay in H. cbn [a_new] in H. destruct H as [<-|[]]. repeat split; auto. intros; discriminate.
  - intros H. apply do_resolve_new in H. destruct H.
  - intros [].
Qed.

Lemma select_poll_out_no_call c li base hgt tnow d e sel na cid q : ~ In (OCall cid q) (a_out (select_poll c li base hgt tnow d e sel na)).
Proof.
  unfold select_poll. destruct e as [en|]; [|intros []].
  destruct (rdy_q en), (fail_q en) as [r|]; try destruct sel; try apply do_resolve_out_no_call; cbn; intros [].
Qed.

Lemma enter_select_new c li base hgt tnow d e sel na q :
  In q (a_new (enter_select c li base hgt tnow d e sel na)) ->
  d <> 0 /\ exists en fq, e = Some en /\ rdy_q en = true /\
    enter_select c li base hgt tnow d e sel na = go_pay c li base hgt tnow (Some (set_queues en false fq)) na /\
    (forall r, fq = Some r -> fail_q en = Some r) /\
    q = QWriteState CreateOrReplace None (DPending na tnow).
Proof.
  unfold enter_select. destruct (d =? 0) eqn:E; [intros H; apply do_resolve_new in H; destruct H|].
  intros H. split; [lia|]. exact (select_poll_new _ _ _ _ _ _ _ _ _ _ H).
Qed.

Lemma enter_select_out_no_call c li base hgt tnow d e sel na cid q : ~ In (OCall cid q) (a_out (enter_select c li base hgt tnow d e sel na)).
Proof. unfold enter_select. destruct (d =? 0); [apply do_resolve_out_no_call|apply select_poll_out_no_call]. Qed.

Definition shape_new (x : lres) : list rpc := match x with LKeep _ new _ _ | LResolve _ _ new _ => new | LSelect _ => [] end.

(* Keep / Resolve shapes never start an attempt, and a pay request comes only from PAdd2 answered successfully *)
Lemma lc_shape_news c li base tnow p cid y sh :
  lc_shape c li base tnow p cid y = Some sh ->
  forallb (fun q => negb (is_attempt_start q)) (shape_new sh) = true /\
  (forall q, In q (shape_new sh) -> is_pay q = true ->
     exists k a g am mf md, p = PAdd2 k a g am mf md /\ q = QPay (li_blob li) am mf md (retry_for c) /\
       sh = LKeep (PPay base a g) [q] [] []).
Proof.
  assert (T : forall l : list rpc, forallb (fun q => negb (is_attempt_start q) && negb (is_pay q)) l = true ->
              forallb (fun q => negb (is_attempt_start q)) l = true /\
              (forall q, In q l -> is_pay q = true -> False)).
  { intros l Hl. rewrite forallb_forall in Hl. split.
    - apply forallb_forall. intros q Hq. specialize (Hl q Hq). apply andb_prop in Hl as [A _]. exact A.
    - intros q Hq Hp. specialize (Hl q Hq). apply andb_prop in Hl as [_ B]. rewrite Hp in B. discriminate. }
  assert (T' : forall sh', forallb (fun q => negb (is_attempt_start q) && negb (is_pay q)) (shape_new sh') = true ->
              forallb (fun q => negb (is_attempt_start q)) (shape_new sh') = true /\
              (forall q, In q (shape_new sh') -> is_pay q = true ->
                 exists k a g am mf md, p = PAdd2 k a g am mf md /\ q = QPay (li_blob li) am mf md (retry_for c) /\ sh' = LKeep (PPay base a g) [q] [] [])).
  { intros sh' H. destruct (T _ H) as (A & B). split; [exact A|]. intros q Hq Hp. destruct (B q Hq Hp). }
  destruct p; unfold lc_shape; try discriminate;
    try (destruct (negb (Nat.eqb cid0 cid)); [discriminate|]).
  - destruct y as [[[[| | |] ?]|]| | | | | | | |]; intros H; inversion H; subst; apply T'; reflexivity.
  - destruct (wait_deliver base w cid y) as [[w' nw|[pr| |] cn]|] eqn:Ew; try discriminate.
    + intros H; inversion H; subst. apply T'. cbn [shape_new]. clear H.
      destruct w as [k0|k0 l|aw]; cbn in Ew.
      * destruct (negb (Nat.eqb k0 cid)); [discriminate|]. destruct y; inversion Ew; subst. reflexivity.
      * destruct (negb (Nat.eqb k0 cid)); [discriminate|]. destruct y as [| | | |[|? ?]| | | |]; try (inversion Ew; fail).
        destruct l as [|l0 l]; inversion Ew; subst. apply forallb_forall. intros q Hq. change (QWaitPart l0 :: map QWaitPart l) with (map QWaitPart (l0 :: l)) in Hq. apply in_map_iff in Hq as (? & <- & _). reflexivity.
      * destruct (negb (existsb _ aw)); [discriminate|]. destruct y; try (inversion Ew; fail).
        destruct (filter _ aw); inversion Ew; subst. reflexivity.
    + destruct k; intros H; inversion H; subst; apply T'; reflexivity.
    + destruct k; intros H; inversion H; subst; apply T'; reflexivity.
    + destruct k; intros H; inversion H; subst; apply T'; reflexivity.
  - destruct y; intros H; inversion H; subst; apply T'; reflexivity.
  - destruct y; intros H; inversion H; subst; apply T'; reflexivity.
  - destruct y; intros H; inversion H; subst; apply T'; reflexivity.
  - destruct y; intros H; inversion H; subst; try (apply T'; reflexivity).
    cbn [shape_new]. split; [reflexivity|]. intros q [<-|[]] _. eauto 10.
  - destruct (pay_reply y); intros H; inversion H; subst; apply T'; reflexivity.
  - destruct y; intros H; inversion H; subst; apply T'; reflexivity.
  - intros H; inversion H; subst; apply T'; reflexivity.
  - destruct y; intros H; inversion H; subst; apply T'; reflexivity.
  - intros H; inversion H; subst; apply T'; reflexivity.
Qed.

Lemma lc_shape_keep_out_nocall c li base tnow p cid y p' new out cancel k q :
  lc_shape c li base tnow p cid y = Some (LKeep p' new out cancel) -> ~ In (OCall k q) out.
Proof.
  assert (T : forall o : list output, (o = [] \/ o = [ONotify] \/ o = [OPanic]) -> ~ In (OCall k q) o)
    by (intros o [->|[->| ->]]; cbn; intros H; try destruct H as [H|H]; try discriminate; auto).
  destruct p; unfold lc_shape; try discriminate;
    try (destruct (negb (Nat.eqb cid0 cid)); [discriminate|]).
  - destruct y as [[[[| | |] ?]|]| | | | | | | |]; intros H; inversion H; subst; apply T; auto.
  - destruct (wait_deliver base w cid y) as [[w' nw|[pr| |] cn]|]; try discriminate.
    + intros H; inversion H; subst; apply T; auto.
    + destruct k0; intros H; inversion H; subst; apply T; auto.
    + destruct k0; intros H; inversion H; subst; apply T; auto.
  - destruct y; intros H; inversion H; subst; apply T; auto.
  - destruct y; intros H; inversion H; subst; apply T; auto.
  - destruct y; intros H; inversion H; subst; apply T; auto.
  - destruct y; intros H; inversion H; subst; apply T; auto.
  - destruct (pay_reply y); intros H; inversion H; subst; apply T; auto.
  - destruct y; intros H; inversion H; subst; apply T; auto.
  - intros H; inversion H; subst; apply T; auto.
  - destruct y; intros H; inversion H; subst; apply T; auto.
  - intros H; inversion H; subst; apply T; auto.
Qed.

(* everything a delivered reply can make a lifecycle issue *)
Lemma lc_deliver_calls c li base hgt tnow p cid y sel e na a k q :
  lc_deliver c li base hgt tnow p cid y sel e na = Some a ->
  ~ In (OCall k q) (a_out a) /\
  (In q (a_new a) ->
     (exists sh, lc_shape c li base tnow p cid y = Some sh /\ In q (shape_new sh) /\
                 match sh with LKeep p' _ _ _ => a_pc a = p' /\ a_entry a = e | _ => True end) \/
     (exists d en fq, lc_shape c li base tnow p cid y = Some (LSelect d) /\ e = Some en /\ rdy_q en = true /\
                 a = go_pay c li base hgt tnow (Some (set_queues en false fq)) na /\ (forall r, fq = Some r -> fail_q en = Some r) /\
                 q = QWriteState CreateOrReplace None (DPending na tnow))).
Proof.
  rewrite lc_deliver_shape. destruct (lc_shape c li base tnow p cid y) as [[p' new out cancel|r p' new cancel|d]|] eqn:E; cbn [option_map]; try discriminate;
    intros H; inversion H; subst; clear H; cbn [adv_of].
  - split; [cbn; eapply lc_shape_keep_out_nocall; eauto|]. cbn. intros Hq. left. exists (LKeep p' new out cancel). auto.
  - split; [apply do_resolve_out_no_call|]. intros Hq. left. exists (LResolve r p' new cancel). split; [reflexivity|]. split; [|exact I].
    cbn. eapply do_resolve_new; eauto.
  - split; [apply enter_select_out_no_call|]. intros Hq. right.
    destruct (enter_select_new _ _ _ _ _ _ _ _ _ _ Hq) as (_ & en & fq & A & B & C & D & F). exists d, en, fq. auto 10.
Qed.

(* ---------- C03: the pay request ---------- *)
Theorem pay_request_facts c s ev cid b am mf md rt :
  InvU s -> InvE c s -> In (OCall cid (QPay b am mf md rt)) (snd (step c s ev)) ->
  exists en, entry_ (pl s) = Some en /\ entry_ (pl (fst (step c s ev))) = Some en /\
    b = e_blob en /\ rt = retry_for c /\
    e_deliver en + fee_base (pol c) + e_deliver en * fee_ppm (pol c) / 1000000 <= sum_amt (listeners en) /\
    mf <= sum_amt (listeners en) - e_deliver en /\
    am = match e_inv_amount en with Some _ => None | None => Some (e_deliver en) end /\
    md <= pol_delta (pol c) /\
    resps (snd (step c s ev)) = [].
Proof.
  intros HU HE Hin. destruct ev; cbn [step] in *; try (destruct Hin; fail).
  - (* EvHtlc: only a state fetch can be issued *)
    exfalso. destruct (entry_ (pl s)) as [e|] eqn:He; [destruct Hin|destruct Hin as [Hin|[]]; discriminate].
  - (* EvPoll: only the in-flight marker can be issued *)
    exfalso. destruct (find_select 0 (lcs (pl s))) as [[[i d] li]|] eqn:Hf; [|destruct Hin].
    destruct (apply_adv_calls _ _ _ _ _ Hin) as [H|H]; [exact (select_poll_out_no_call _ _ _ _ _ _ _ _ _ _ _ H)|].
    destruct (select_poll_new _ _ _ _ _ _ _ _ _ _ H) as (? & ? & _ & _ & _ & _ & X). discriminate.
  - destruct (nth_error (calls s) cid0) as [cl|]; [|destruct Hin]. destruct (c_st cl); try (destruct Hin; fail).
    destruct (node_exec (nd s) (c_rpc cl) f). destruct Hin.
  - (* EvDeliver *)
    destruct (nth_error (calls s) cid0) as [cl|]; [|destruct Hin]. destruct (c_st cl); try (destruct Hin; fail).
    destruct (find_owner c 0 (lcs (pl s)) cid0 y sel (entry_ (pl s)) (length (calls s)) (height s) (now s) (next_att (pl s))) as [[i a]|] eqn:Hf; [|destruct Hin].
    destruct (find_owner_spec _ _ _ _ _ _ _ _ _ _ _ _ _ Hf) as (x & Hx & _ & Hd). rewrite Nat.sub_0_r in Hx.
    destruct (lc_deliver_calls _ _ _ _ _ _ _ _ _ _ _ _ cid (QPay b am mf md rt) Hd) as (Hno & Hnew).
    destruct (apply_adv_calls _ _ _ _ _ Hin) as [H|H]; [contradiction|].
    destruct (Hnew H) as [(sh & Hsh & Hq & Hk)|(d & en & fq & _ & _ & _ & _ & _ & X)]; [|discriminate].
    destruct (lc_shape_news _ _ _ _ _ _ _ _ Hsh) as (_ & Hpay).
    destruct (Hpay _ Hq eq_refl) as (k & a0 & g & am' & mf' & md' & Hp & Hqq & ->). inversion Hqq; subst am' mf' md' b rt. clear Hqq.
    destruct Hk as (Hpc & Hen).
    assert (Ax : attached (l_pc x) = true) by (rewrite Hp; reflexivity).
    destruct (entry_ (pl s)) as [en|] eqn:Ee; [|exfalso; exact (InvU_attached_entry s i x HU Hx Ax Ee)].
    destruct (ie_lc c s HE en i x Ee Hx Ax) as (Hinfo & Hv). rewrite Hp in Hv. cbn in Hv. destruct Hv as (V1 & V2 & V3 & V4).
    pose proof (ie_entry c s HE en Ee) as HEn.
    exists en. split; [reflexivity|].
    destruct (apply_adv_lcs (with_calls s (set_status cid0 Delivered (calls s))) i a x Hx) as (_ & Hen' & _).
    split; [rewrite Hen', Hen; reflexivity|].
    rewrite Hinfo. cbn [info_of li_blob].
    pose proof (fee_sufficient_true _ _ _ V1) as Hfee. rewrite (ei_recv c en HEn) in *.
    repeat split; auto; try lia.
    rewrite apply_adv_resps, lc_deliver_shape in *. rewrite Hsh in Hd. cbn in Hd. inversion Hd; subst a. reflexivity.
  - destruct (nth_error (parts (nd s)) pid) as [[]|], st; destruct Hin.
  - destruct (nth_error (calls s) cid0) as [[q st]|]; [|destruct Hin]. destruct q; try (destruct Hin; fail). destruct st; destruct Hin.
  - destruct (nth_error (calls s) cid0) as [[q st]|]; [|destruct Hin]. destruct q; try (destruct Hin; fail). destruct st; destruct Hin.
  - destruct (fire_timers (lcs (pl s)) (entry_ (pl s)) (now s + dt)) as [[l' e'] o'] eqn:Hf. cbn in Hin.
    exfalso. exact (fire_timers_no_calls _ _ _ _ _ _ _ _ Hf Hin).
Qed.

Lemma lc_shape_select_attached c li base tnow p cid y d :
  lc_shape c li base tnow p cid y = Some (LSelect d) ->
  attached p = true /\ d <= mpp_ms c /\ ((exists k, p = PFetch k) \/ (exists k a g t, p = PMarkF2 k a g t)).
Proof.
  destruct p; unfold lc_shape; try discriminate;
    try (destruct (negb (Nat.eqb cid0 cid)); [discriminate|]).
  - destruct y as [[[[| | |] ?]|]| | | | | | | |]; intros H; inversion H; subst; (split; [reflexivity|split; [lia|eauto]]).
  - destruct (wait_deliver base w cid y) as [[w' nw|[pr| |] cn]|]; try discriminate; try (destruct k; discriminate).
  - destruct y; discriminate.
  - destruct y; intros H; inversion H; subst. split; [reflexivity|]. split; [lia|]. right. eauto.
  - destruct y; discriminate.
  - destruct y; discriminate.
  - destruct (pay_reply y); discriminate.
  - destruct y; discriminate.
  - discriminate.
  - destruct y; discriminate.
  - discriminate.
Qed.

(* ---------- C04: the start of an attempt (the in-flight marker is issued) fixes the pay parameters ---------- *)
(* the entry the lifecycle sees when it leaves the select! *)
Definition entry_seen (c : cfg) (s : sys) (ev : event) : option entry := entry_ (pl s).

Theorem attempt_start_facts c s ev cid a t :
  InvU s -> InvE c s -> In (OCall cid (QWriteState CreateOrReplace None (DPending a t))) (snd (step c s ev)) ->
  exists en fq i x,
    entry_seen c s ev = Some en /\ rdy_q en = true /\
    entry_ (pl (fst (step c s ev))) = Some (set_queues en false fq) /\
    nth_error (lcs (pl (fst (step c s ev)))) i = Some x /\
    l_pc x = PAdd1 cid a (match e_inv_amount en with Some _ => None | None => Some (e_deliver en) end)
                   (recv en - e_deliver en)
                   (N.min (clamp16 ((minexp en - height s) - cltv_delta c)) (pol_delta (pol c))) /\
    a = next_att (pl s) /\ t = now s /\
    recv en = N.min u64max (sum_amt (listeners en)) /\ minexp en = min_expiry (listeners en) /\
    fee_sufficient (pol c) (recv en) (e_deliver en) = true.
Proof.
  intros HU HE Hin. unfold entry_seen. destruct ev; cbn [step] in *; try (destruct Hin; fail).
  - (* EvHtlc *)
    exfalso. destruct (entry_ (pl s)) as [e|] eqn:He; [destruct Hin|destruct Hin as [Hin|[]]; discriminate].
  - (* EvPoll *)
    destruct (find_select 0 (lcs (pl s))) as [[[i d] li]|] eqn:Hf; [|destruct Hin].
    destruct (find_select_spec _ _ _ _ _ Hf) as (x & Hx & Hp & Hli & _). rewrite Nat.sub_0_r in Hx. subst li.
    assert (Ax : attached (l_pc x) = true) by (rewrite Hp; reflexivity).
    pose proof (apply_adv_outs s i (select_poll c (l_info x) (length (calls s)) (height s) (now s) d (entry_ (pl s)) sel (next_att (pl s)))) as HO.
    destruct (apply_adv_lcs s i (select_poll c (l_info x) (length (calls s)) (height s) (now s) d (entry_ (pl s)) sel (next_att (pl s))) x Hx) as (Hl & Hen & _).
    destruct (apply_adv_calls _ _ _ _ _ Hin) as [H|H]; [exfalso; exact (select_poll_out_no_call _ _ _ _ _ _ _ _ _ _ _ H)|].
    destruct (select_poll_new _ _ _ _ _ _ _ _ _ _ H) as (en & fq & E1 & E2 & E3 & E4 & E5). inversion E5; subst a t.
    pose proof (ie_entry c s HE en E1) as HE1.
    destruct (ie_lc c s HE en i x E1 Hx Ax) as (Hinfo & _).
    assert (Hfq : forall r, fq = Some r -> is_fail en = true) by (intros r Hr; exact (ei_failq c _ HE1 r (E4 r Hr))).
    destruct (go_pay_spec c (l_info x) (length (calls s)) (height s) (now s) en (next_att (pl s)) HE1 E2 Hinfo fq Hfq) as (G1 & G2 & G3 & G4 & G5).
    rewrite E3 in *. exists en, fq, i, (set_pc x (a_pc (go_pay c (l_info x) (length (calls s)) (height s) (now s) (Some (set_queues en false fq)) (next_att (pl s))))).
    split; [exact E1|]. split; [exact E2|]. split; [rewrite Hen; exact G1|].
    split; [rewrite Hl; apply nth_error_upd_same; apply nth_error_Some; rewrite Hx; discriminate|].
    cbn [set_pc l_pc]. rewrite G2.
    assert (cid = length (calls s)).
    { rewrite HO, G3, G4 in Hin. cbn in Hin. destruct Hin as [Hin|[]]. inversion Hin. reflexivity. }
    subst cid. repeat split; auto; [exact (ei_recv c _ HE1)|exact (ei_minexp c _ HE1)|exact (ei_ready_funded c _ HE1 E2)].
  - destruct (nth_error (calls s) cid0) as [cl|]; [|destruct Hin]. destruct (c_st cl); try (destruct Hin; fail).
    destruct (node_exec (nd s) (c_rpc cl) f). destruct Hin.
  - (* EvDeliver *)
    destruct (nth_error (calls s) cid0) as [cl|]; [|destruct Hin]. destruct (c_st cl); try (destruct Hin; fail).
    destruct (find_owner c 0 (lcs (pl s)) cid0 y sel (entry_ (pl s)) (length (calls s)) (height s) (now s) (next_att (pl s))) as [[i a0]|] eqn:Hf; [|destruct Hin].
    destruct (find_owner_spec _ _ _ _ _ _ _ _ _ _ _ _ _ Hf) as (x & Hx & _ & Hd). rewrite Nat.sub_0_r in Hx.
    destruct (lc_deliver_calls _ _ _ _ _ _ _ _ _ _ _ _ cid (QWriteState CreateOrReplace None (DPending a t)) Hd) as (Hno & Hnew).
    pose proof (apply_adv_outs (with_calls s (set_status cid0 Delivered (calls s))) i a0) as HO.
    destruct (apply_adv_calls _ _ _ _ _ Hin) as [H|H]; [contradiction|].
    destruct (Hnew H) as [(sh & Hsh & Hq & _)|(d & en & fq & Hsh & Ee & Eq & Ea & Efq & X)].
    { exfalso. destruct (lc_shape_news _ _ _ _ _ _ _ _ Hsh) as (Hns & _). rewrite forallb_forall in Hns. specialize (Hns _ Hq). discriminate. }
    inversion X; subst a t. clear X.
    (* only an attached lifecycle goes to the select! *)
    assert (Ax : attached (l_pc x) = true) by exact (proj1 (lc_shape_select_attached _ _ _ _ _ _ _ _ Hsh)).
    pose proof (ie_entry c s HE en Ee) as HEn.
    destruct (ie_lc c s HE en i x Ee Hx Ax) as (Hinfo & _).
    assert (Hfq : forall r, fq = Some r -> is_fail en = true) by (intros r Hr; exact (ei_failq c _ HEn r (Efq r Hr))).
    destruct (go_pay_spec c (l_info x) (length (calls s)) (height s) (now s) en (next_att (pl s)) HEn Eq Hinfo fq Hfq) as (G1 & G2 & G3 & G4 & G5).
    destruct (apply_adv_lcs (with_calls s (set_status cid0 Delivered (calls s))) i a0 x Hx) as (Hl & Hen & _).
    exists en, fq, i, (set_pc x (a_pc a0)). rewrite Ea in *.
    split; [exact Ee|]. split; [exact Eq|]. split; [rewrite Hen; exact G1|].
    split; [rewrite Hl; apply nth_error_upd_same; apply nth_error_Some; cbn [with_calls pl lcs]; rewrite Hx; discriminate|].
    cbn [set_pc l_pc]. rewrite G2.
    assert (cid = length (calls s)).
    { rewrite HO, G3, G4 in Hin. cbn [with_calls calls] in Hin. rewrite set_status_length in Hin. cbn in Hin.
      destruct Hin as [Hin|Hin]; [inversion Hin; reflexivity|destruct Hin]. }
    subst cid. repeat split; auto; [exact (ei_recv c _ HEn)|exact (ei_minexp c _ HEn)|exact (ei_ready_funded c _ HEn Eq)].
  - destruct (nth_error (parts (nd s)) pid) as [[]|], st; destruct Hin.
  - destruct (nth_error (calls s) cid0) as [[q st]|]; [|destruct Hin]. destruct q; try (destruct Hin; fail). destruct st; destruct Hin.
  - destruct (nth_error (calls s) cid0) as [[q st]|]; [|destruct Hin]. destruct q; try (destruct Hin; fail). destruct st; destruct Hin.
  - destruct (fire_timers (lcs (pl s)) (entry_ (pl s)) (now s + dt)) as [[l' e'] o'] eqn:Hf. cbn in Hin.
    exfalso. exact (fire_timers_no_calls _ _ _ _ _ _ _ _ Hf Hin).
Qed.

(* the values travel unchanged from the attempt start to the pay request: PAdd1 -> PAdd2 -> QPay *)
Theorem pay_values_travel c li base tnow p cid y sh :
  lc_shape c li base tnow p cid y = Some sh ->
  (forall k a am mf md, p = PAdd1 k a am mf md -> forall g, y = YGen g -> sh = LKeep (PAdd2 base a g am mf md) [QWriteAtt MustCreate a false false (li_deliver li) (li_blob li)] [] []) /\
  (forall k a g am mf md, p = PAdd2 k a g am mf md -> y = YUnit -> sh = LKeep (PPay base a g) [QPay (li_blob li) am mf md (retry_for c)] [] []).
Proof.
  intros H. split.
  - intros k a am mf md -> g ->. unfold lc_shape in H. destruct (negb (Nat.eqb k cid)); [discriminate|]. inversion H. reflexivity.
  - intros k a g am mf md -> ->. unfold lc_shape in H. destruct (negb (Nat.eqb k cid)); [discriminate|]. inversion H. reflexivity.
Qed.
