(* CodecProofs.v — C17 (framing) over Model/Codec.v. *)
From Tramp Require Import Model.Base Model.Codec.
From Coq Require Import ZifyBool ZifyNat ZifyN.

(* split_sep with an accumulator is split_sep without, prefixed *)
Lemma split_sep_acc acc l :
  split_sep acc l = match split_sep [] l with Some (f, r) => Some (rev acc ++ f, r) | None => None end.
Proof.
  revert acc; induction l as [|x l IH]; intros acc; cbn [split_sep]; [reflexivity|].
  destruct l as [|y l']; [reflexivity|].
  destruct ((x =? NL) && (y =? NL)) eqn:E.
  - cbn. rewrite app_nil_r. reflexivity.
  - rewrite (IH (x :: acc)), (IH [x]). destruct (split_sep [] (y :: l')) as [[f r]|]; [|reflexivity].
    cbn [rev]. rewrite <- !app_assoc. reflexivity.
Qed.

Lemma split_sep_shorter l f r : split_sep [] l = Some (f, r) -> (length f + length r + 2 = length l)%nat.
Proof.
  revert f r; induction l as [|x l IH]; intros f r; cbn [split_sep]; [discriminate|].
  destruct l as [|y l']; [discriminate|].
  destruct ((x =? NL) && (y =? NL)) eqn:E.
  - intros H; inversion H; subst; cbn; lia.
  - rewrite split_sep_acc. destruct (split_sep [] (y :: l')) as [[f' r']|] eqn:E'; [|discriminate].
    intros H; inversion H; subst. specialize (IH _ _ eq_refl). cbn in *. lia.
Qed.

(* a separator found in a prefix is found at the same place when more bytes follow *)
Lemma split_sep_app l f r b : split_sep [] l = Some (f, r) -> split_sep [] (l ++ b) = Some (f, r ++ b).
Proof.
  revert f r; induction l as [|x l IH]; intros f r; cbn [split_sep app]; [discriminate|].
  destruct l as [|y l']; [discriminate|]. cbn [app].
  destruct ((x =? NL) && (y =? NL)) eqn:E.
  - intros H; inversion H; subst. reflexivity.
  - rewrite split_sep_acc. change (y :: l' ++ b) with ((y :: l') ++ b). rewrite (split_sep_acc [x] ((y :: l') ++ b)).
    destruct (split_sep [] (y :: l')) as [[f' r']|] eqn:E'; [|discriminate].
    intros H; inversion H; subst. rewrite (IH _ _ eq_refl). reflexivity.
Qed.

Lemma drain_fuel_irrelevant f1 : forall f2 buf, (length buf < f1)%nat -> (length buf < f2)%nat -> drain f1 buf = drain f2 buf.
Proof.
  induction f1 as [|f1 IH]; intros f2 buf H1 H2; [lia|].
  destruct f2 as [|f2]; [lia|]. cbn [drain].
  destruct (split_sep [] buf) as [[fr rest]|] eqn:E; [|reflexivity].
  pose proof (split_sep_shorter _ _ _ E). rewrite (IH f2 rest) by lia. reflexivity.
Qed.

Lemma frames_unfold buf :
  frames buf = match split_sep [] buf with
               | Some (fr, rest) => let '(fs, lft) := frames rest in (fr :: fs, lft)
               | None => ([], buf)
               end.
Proof.
  unfold frames. cbn [drain]. destruct (split_sep [] buf) as [[fr rest]|] eqn:E; [|reflexivity].
  pose proof (split_sep_shorter _ _ _ E). rewrite (drain_fuel_irrelevant (length buf) (S (length rest)) rest) by lia. reflexivity.
Qed.

(* draining a buffer and then feeding more bytes to what is lft = draining everything at once *)
Lemma frames_app_fuel n : forall a b, (length a < n)%nat ->
  frames (a ++ b) = let '(fs, lft) := frames a in let '(fs', lft') := frames (lft ++ b) in (fs ++ fs', lft').
Proof.
  induction n as [|n IH]; intros a b Hn; [lia|].
  rewrite (frames_unfold a). destruct (split_sep [] a) as [[fr rest]|] eqn:E.
  - rewrite (frames_unfold (a ++ b)), (split_sep_app _ _ _ b E).
    pose proof (split_sep_shorter _ _ _ E). rewrite (IH rest b) by lia.
    destruct (frames rest) as [fs lft]. destruct (frames (lft ++ b)) as [fs' lft']. reflexivity.
  - cbv beta iota zeta. destruct (frames (a ++ b)) as [fs' lft']. reflexivity.
Qed.
Lemma frames_app a b :
  frames (a ++ b) = let '(fs, lft) := frames a in let '(fs', lft') := frames (lft ++ b) in (fs ++ fs', lft').
Proof. apply (frames_app_fuel (S (length a))). lia. Qed.

(* what is lft after draining contains no separator *)
Lemma frames_left_fuel n : forall buf, (length buf < n)%nat -> split_sep [] (snd (frames buf)) = None.
Proof.
  induction n as [|n IH]; intros buf Hn; [lia|].
  rewrite frames_unfold. destruct (split_sep [] buf) as [[fr rest]|] eqn:E; [|exact E].
  pose proof (split_sep_shorter _ _ _ E). specialize (IH rest). destruct (frames rest) as [fs lft]. cbn in *. apply IH. lia.
Qed.
Lemma frames_idempotent buf : frames (snd (frames buf)) = ([], snd (frames buf)).
Proof. rewrite (frames_unfold (snd (frames buf))). rewrite (frames_left_fuel (S (length buf))) by lia. reflexivity. Qed.

(* C17, first clause: however the stream is split into reads, the frames are those of the whole stream *)
Theorem feed_is_frames chunks : forall buf,
  frames buf = ([], buf) -> feed buf chunks = frames (buf ++ concat chunks).
Proof.
  induction chunks as [|c r IH]; intros buf Hb; cbn [feed concat].
  - rewrite app_nil_r. symmetry. exact Hb.
  - rewrite app_assoc. rewrite (frames_app (buf ++ c) (concat r)).
    destruct (frames (buf ++ c)) as [fs lft] eqn:E.
    assert (Hl : frames lft = ([], lft)) by (pose proof (frames_idempotent (buf ++ c)) as X; rewrite E in X; exact X).
    rewrite (IH lft Hl). destruct (frames (lft ++ concat r)) as [fs' lft']. reflexivity.
Qed.

Corollary feed_chunking chunks : feed [] chunks = frames (concat chunks).
Proof. apply (feed_is_frames chunks []). reflexivity. Qed.

(* C17, writer clause: whole-message appends decode back to exactly those messages *)
Definition no_nl (m : list N) : Prop := Forall (fun b => b <> NL) m.

Lemma split_sep_encode m r : no_nl m -> split_sep [] (encode m ++ r) = Some (m, r).
Proof.
  unfold encode. rewrite <- app_assoc. cbn [app].
  induction 1 as [|x m Hx Hm IH]; cbn [app split_sep].
  - cbn. reflexivity.
  - assert (Hxn : (x =? NL) = false) by (apply N.eqb_neq; exact Hx).
    destruct (m ++ NL :: NL :: r) as [|y t] eqn:E; [destruct m; discriminate|].
    rewrite Hxn. cbn [andb]. rewrite split_sep_acc, IH. reflexivity.
Qed.

Theorem frames_of_encoded ms : Forall no_nl ms -> frames (concat (map encode ms)) = (ms, []).
Proof.
  induction 1 as [|m ms Hm Hms IH]; cbn [map concat]; [reflexivity|].
  rewrite frames_unfold, (split_sep_encode m _ Hm), IH. reflexivity.
Qed.

(* driver bookkeeping: a completion writes exactly one reply, carrying that id, only if the request is pending *)
Lemma dstep_reply pending id :
  snd (dstep pending (DComplete id)) = if existsb (N.eqb id) pending then [id] else [].
Proof. cbn. destruct (existsb (N.eqb id) pending); reflexivity. Qed.
