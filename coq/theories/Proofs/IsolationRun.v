(* IsolationRun.v — non-interference between payment hashes over whole histories (C14).
   The global system is the product of the per-hash systems (Check/SysCheck.v). Take two global histories that contain the
   SAME events concerning hash h — its HTLCs, its node/lifecycle events, and the global events (clock, chain, crash) — and
   ANY other events in between: the component of h, the clock and the chain height end up identical. What other hashes
   do, how often, and in which order relative to h's events, cannot be seen from h. (Bursts — several HTLCs handled under
   one lock acquisition — are a scheduling artefact of the Check layer and are excluded here; C14's correspondence check
   covers them.) *)
From Tramp Require Import Model.Base Model.Tlv Model.Fee Model.Classify Model.Node Model.Sys Check.Common Check.SysCheck.
From Tramp Require Import Proofs.IsolationProofs.

Definition gev := (gevent * bool)%type.
Definition grun (w : world) (g : gsys) (evs : list gev) : gsys := fold_left (fun g x => fst (gstep w g (fst x) (snd x))) evs g.
Definition no_burst (x : gev) : bool := match fst x with GBurst _ => false | _ => true end.

Definition concerns (w : world) (h : nat) (ev : gevent) : bool :=
  match ev with
  | GHtlc rq => match gclassify w rq with KTramp h' _ => Nat.eqb h' h | _ => false end
  | GEv h' _ | GTimeout h' _ => Nat.eqb h' h
  | GTick _ | GHeight _ | GCrash => true
  | GHang _ | GBurst _ => false
  end.
Definition view (w : world) (h : nat) (evs : list gev) : list gev := filter (fun x => concerns w h (fst x)) evs.

Definition same_for (h : nat) (g1 g2 : gsys) : Prop :=
  get_comp g1 h = get_comp g2 h /\ gnow g1 = gnow g2 /\ gheight g1 = gheight g2.

Lemma same_for_refl h g : same_for h g g.
Proof. repeat split. Qed.
Lemma same_for_sym h g1 g2 : same_for h g1 g2 -> same_for h g2 g1.
Proof. intros (A & B & C). repeat split; congruence. Qed.
Lemma same_for_trans h g1 g2 g3 : same_for h g1 g2 -> same_for h g2 g3 -> same_for h g1 g3.
Proof. intros (A & B & C) (A' & B' & C'). repeat split; congruence. Qed.

(* ---------- the component of h after one event that concerns it, as a function of the component before ---------- *)
Definition default_comp (g : gsys) : sys := {| nd := node0; pl := plugin0; calls := []; now := gnow g; height := gheight g |}.

Lemma get_comp_cases g h :
  (exists x, find (fun y => Nat.eqb (fst y) h) (comps g) = Some x /\ get_comp g h = snd x) \/
  (find (fun y => Nat.eqb (fst y) h) (comps g) = None /\ get_comp g h = default_comp g).
Proof. unfold get_comp, default_comp. destruct (find _ (comps g)) as [x|]; [left; eauto|right; auto]. Qed.

Lemma global_comp w g h (ev : event) (g' : gsys) :
  (ev = EvCrash \/ (exists dt, ev = EvTick dt) \/ (exists v, ev = EvHeight v)) ->
  comps g' = fst (map_comps (fun s => step (w_cfg w) s ev) g) ->
  gnow g' = now (fst (step (w_cfg w) (default_comp g) ev)) -> gheight g' = height (fst (step (w_cfg w) (default_comp g) ev)) ->
  get_comp g' h = fst (step (w_cfg w) (get_comp g h) ev).
Proof.
  intros Hev Hc Hn Hh. unfold get_comp at 1. rewrite Hc, map_comps_find.
  destruct (get_comp_cases g h) as [(x & Hx & ->)|(Hx & ->)]; rewrite Hx; [reflexivity|].
  rewrite Hn, Hh. destruct Hev as [->|[(dt & ->)|(v & ->)]]; reflexivity.
Qed.

Lemma step_concerned w h ev sel g1 g2 :
  concerns w h ev = true -> same_for h g1 g2 -> same_for h (fst (gstep w g1 ev sel)) (fst (gstep w g2 ev sel)).
Proof.
  intros Hc (Hs & Hn & Hh). destruct ev as [rq|rqs|h' ev|h' cid|uid|dt|v|]; cbn [concerns] in Hc; try discriminate.
  - (* an HTLC of h *)
    pose proof (ghtlc_component w g1 rq sel) as A1. pose proof (ghtlc_component w g2 rq sel) as A2.
    destruct (gclassify w rq) as [|r|h' t| |] eqn:E; try discriminate. apply Nat.eqb_eq in Hc. subst h'.
    destruct A1 as (A1 & _). destruct A2 as (A2 & _). split; [rewrite A1, A2, Hs; reflexivity|].
    cbn [gstep]. rewrite E. destruct (step_htlc _ (get_comp g1 h) _ sel), (step_htlc _ (get_comp g2 h) _ sel). cbn. auto.
  - apply Nat.eqb_eq in Hc. subst h'.
    destruct (gev_component w g1 h ev sel) as (A1 & _). destruct (gev_component w g2 h ev sel) as (A2 & _).
    split; [rewrite A1, A2, Hs; reflexivity|].
    cbn [gstep]. destruct (step _ (get_comp g1 h) _), (step _ (get_comp g2 h) _). cbn. auto.
  - apply Nat.eqb_eq in Hc. subst h'. cbn [gstep]. rewrite Hs.
    destruct (step (w_cfg w) (get_comp g2 h) (EvProcess cid Rejected)) as [s' o]. cbn [fst].
    split; [rewrite !get_put_same; reflexivity|cbn; auto].
  - (* the clock *)
    cbn [gstep].
    destruct (map_comps (fun s => step (w_cfg w) s (EvTick dt)) g1) as [c1 o1] eqn:E1.
    destruct (map_comps (fun s => step (w_cfg w) s (EvTick dt)) g2) as [c2 o2] eqn:E2. cbn [fst].
    split; [|cbn; split; congruence].
    rewrite (global_comp w g1 h (EvTick dt) {| comps := c1; gnow := gnow g1 + dt; gheight := gheight g1 |} (or_intror (or_introl (ex_intro _ dt eq_refl))) ltac:(cbn [comps]; rewrite E1; reflexivity) eq_refl eq_refl).
    rewrite (global_comp w g2 h (EvTick dt) {| comps := c2; gnow := gnow g2 + dt; gheight := gheight g2 |} (or_intror (or_introl (ex_intro _ dt eq_refl))) ltac:(cbn [comps]; rewrite E2; reflexivity) eq_refl eq_refl).
    rewrite Hs. reflexivity.
  - cbn [gstep].
    destruct (map_comps (fun s => step (w_cfg w) s (EvHeight v)) g1) as [c1 o1] eqn:E1.
    destruct (map_comps (fun s => step (w_cfg w) s (EvHeight v)) g2) as [c2 o2] eqn:E2. cbn [fst].
    split; [|cbn; split; congruence].
    rewrite (global_comp w g1 h (EvHeight v) {| comps := c1; gnow := gnow g1; gheight := v |} (or_intror (or_intror (ex_intro _ v eq_refl))) ltac:(cbn [comps]; rewrite E1; reflexivity) eq_refl eq_refl).
    rewrite (global_comp w g2 h (EvHeight v) {| comps := c2; gnow := gnow g2; gheight := v |} (or_intror (or_intror (ex_intro _ v eq_refl))) ltac:(cbn [comps]; rewrite E2; reflexivity) eq_refl eq_refl).
    rewrite Hs. reflexivity.
  - cbn [gstep].
    destruct (map_comps (fun s => step (w_cfg w) s EvCrash) g1) as [c1 o1] eqn:E1.
    destruct (map_comps (fun s => step (w_cfg w) s EvCrash) g2) as [c2 o2] eqn:E2. cbn [fst].
    split; [|cbn; split; congruence].
    rewrite (global_comp w g1 h EvCrash {| comps := c1; gnow := gnow g1; gheight := gheight g1 |} (or_introl eq_refl) ltac:(cbn [comps]; rewrite E1; reflexivity) eq_refl eq_refl).
    rewrite (global_comp w g2 h EvCrash {| comps := c2; gnow := gnow g2; gheight := gheight g2 |} (or_introl eq_refl) ltac:(cbn [comps]; rewrite E2; reflexivity) eq_refl eq_refl).
    rewrite Hs. reflexivity.
Qed.

(* an event that does not concern h leaves its component, the clock and the chain height alone *)
Lemma step_unconcerned w h ev sel g :
  concerns w h ev = false -> no_burst (ev, sel) = true -> same_for h (fst (gstep w g ev sel)) g.
Proof.
  intros Hc Hb. destruct ev as [rq|rqs|h' ev|h' cid|uid|dt|v|]; cbn [concerns no_burst fst] in Hc, Hb; try discriminate.
  - pose proof (ghtlc_component w g rq sel) as A. cbn [gstep] in *.
    destruct (gclassify w rq) as [|r|h' t| |] eqn:E; try apply same_for_refl.
    apply Nat.eqb_neq in Hc. destruct A as (_ & _ & A).
    split; [exact (A h Hc)|]. destruct (step_htlc _ (get_comp g h') _ sel). cbn. auto.
  - apply Nat.eqb_neq in Hc. destruct (gev_component w g h' ev sel) as (_ & _ & A).
    split; [exact (A h Hc)|]. cbn [gstep]. destruct (step _ (get_comp g h') _). cbn. auto.
  - apply Nat.eqb_neq in Hc. cbn [gstep]. destruct (step (w_cfg w) (get_comp g h') (EvProcess cid Rejected)) as [s' o]. cbn [fst].
    split; [apply get_put_other; exact Hc|cbn; auto].
  - apply same_for_refl.
Qed.

(* ---------- histories ---------- *)
Lemma run_concerned w h : forall v g1 g2,
  forallb (fun x => concerns w h (fst x)) v = true -> same_for h g1 g2 -> same_for h (grun w g1 v) (grun w g2 v).
Proof.
  induction v as [|x v IH]; intros g1 g2 Hv Hs; cbn [grun fold_left]; [exact Hs|].
  cbn [forallb] in Hv. apply andb_prop in Hv as (Hx & Hv). apply (IH _ _ Hv). apply step_concerned; assumption.
Qed.

Lemma run_view w h : forall evs g g',
  forallb no_burst evs = true -> same_for h g g' -> same_for h (grun w g evs) (grun w g' (view w h evs)).
Proof.
  induction evs as [|x evs IH]; intros g g' Hb Hs; cbn [grun fold_left view filter]; [exact Hs|].
  cbn [forallb] in Hb. apply andb_prop in Hb as (Hx & Hb).
  destruct (concerns w h (fst x)) eqn:Ec; cbn [fold_left].
  - apply (IH _ _ Hb). apply step_concerned; assumption.
  - apply (IH _ _ Hb). eapply same_for_trans; [|exact Hs]. destruct x as [ev sel]. apply step_unconcerned; assumption.
Qed.

Lemma view_concerned w h evs : forallb (fun x => concerns w h (fst x)) (view w h evs) = true.
Proof. unfold view. induction evs as [|x evs IH]; cbn; [reflexivity|]. destruct (concerns w h (fst x)) eqn:E; cbn; rewrite ?E; exact IH. Qed.

Theorem noninterference w h evs1 evs2 g1 g2 :
  forallb no_burst evs1 = true -> forallb no_burst evs2 = true ->
  view w h evs1 = view w h evs2 -> same_for h g1 g2 ->
  same_for h (grun w g1 evs1) (grun w g2 evs2).
Proof.
  intros B1 B2 Hv Hs.
  pose proof (run_view w h evs1 g1 g1 B1 (same_for_refl h g1)) as R1.
  pose proof (run_view w h evs2 g2 g2 B2 (same_for_refl h g2)) as R2.
  pose proof (run_concerned w h (view w h evs1) g1 g2 (view_concerned w h evs1) Hs) as R3.
  rewrite Hv in R3 at 2.
  eapply same_for_trans; [exact R1|]. eapply same_for_trans; [exact R3|]. apply same_for_sym. exact R2.
Qed.
