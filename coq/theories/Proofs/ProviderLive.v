(* ProviderLive.v — wait_payment (alone, or the one pay() falls back to) over Model/ProviderSys.v, on EVERY schedule:
   a run in which every step changes the state is bounded by a potential, and the machine can only be at rest when it has
   returned. So every maximal run — the node answering, replies arriving, pending parts resolving, in any order, with any
   RPC error injected — ends with a result; wait_payment cannot wait for ever once the parts resolve. *)
From Tramp Require Import Model.Base Model.Node Model.Provider Model.ProviderSys Proofs.ProviderProofs.
From Coq Require Import ZifyBool ZifyNat ZifyN.

Definition callw (c : call) : nat := match c_st c with Unprocessed => 2 | Replied _ => 1 | _ => 0 end.
Definition W (cs : list call) : nat := fold_right (fun c acc => callw c + acc)%nat 0%nat cs.
Definition pendcount (ps : list pstat) : nat := length (filter (fun p => match p with PPend => true | _ => false end) ps).

Definition stage_w (s : psys) (w : waitst) : nat :=
  match w with
  | WListP k => 6 + 2 * match nth_error (ps_calls s) k with
                        | Some {| c_rpc := _; c_st := Replied (YPids l) |} => length l
                        | _ => pendcount (parts (ps_nd s))
                        end
  | WListD _ l => 3 + 2 * length l
  | WParts _ => 0
  end.
Definition stage (s : psys) : nat :=
  match ps_st s with SWait w | SPayWait w => stage_w s w | _ => 0 end.
Definition ppot (s : psys) : nat := (stage s + W (ps_calls s) + pendcount (parts (ps_nd s)))%nat.

Definition in_wait (s : psys) : Prop := match ps_st s with SWait _ | SPayWait _ | SFin _ => True | SPay _ => False end.
Definition peffective (s : psys) (ev : pevent) : Prop := pstep s ev <> s.

(* ---------- arithmetic of the call weights ---------- *)
Lemma W_app a b : W (a ++ b) = (W a + W b)%nat.
Proof. induction a as [|c a IH]; cbn [W fold_right app]; [reflexivity|]. fold (W (a ++ b)). fold (W a). rewrite IH. lia. Qed.
Lemma W_mk_calls qs : W (mk_calls qs) = (2 * length qs)%nat.
Proof. induction qs as [|q qs IH]; [reflexivity|]. cbn [mk_calls map W fold_right length]. fold (mk_calls qs). fold (W (mk_calls qs)). rewrite IH. cbn. lia. Qed.

Lemma W_upd cid cl cl' cs : nth_error cs cid = Some cl -> (W (upd cid cl' cs) + callw cl = W cs + callw cl')%nat.
Proof.
  revert cid; induction cs as [|c cs IH]; intros cid H; [destruct cid; discriminate|].
  destruct cid as [|cid]; cbn [nth_error] in H.
  - inversion H; subst. cbn [upd]. unfold W. cbn [fold_right]. lia.
  - cbn [upd]. unfold W in *. cbn [fold_right]. specialize (IH cid H). lia.
Qed.
Lemma W_set_status cid st cs cl : nth_error cs cid = Some cl ->
  (W (set_status cid st cs) + callw cl = W cs + callw {| c_rpc := c_rpc cl; c_st := st |})%nat.
Proof. intros H. unfold set_status. rewrite H. apply W_upd. exact H. Qed.
Lemma W_set_status_le cid st cs : (forall y, st <> Replied y) -> st <> Unprocessed -> (W (set_status cid st cs) <= W cs)%nat.
Proof.
  intros H1 H2. destruct (nth_error cs cid) as [cl|] eqn:E.
  - pose proof (W_set_status cid st cs cl E) as H. unfold callw in H at 2. cbn [c_st] in H.
    destruct st as [| |y| | |]; try (exfalso; congruence); try lia; exfalso; exact (H1 y eq_refl).
  - unfold set_status. rewrite E. lia.
Qed.
Lemma W_cancel ids : forall cs, (W (cancel_calls ids cs) <= W cs)%nat.
Proof.
  unfold cancel_calls. induction ids as [|i ids IH]; intros cs; cbn [fold_left]; [lia|].
  etransitivity; [apply IH|]. apply W_set_status_le; discriminate.
Qed.

Lemma pend_ids_length ps : forall i, length (pend_ids i ps) = pendcount ps.
Proof. induction ps as [|[| |] ps IH]; intros i; cbn [pend_ids pendcount filter length]; try apply IH; [reflexivity|]. fold (pendcount ps). rewrite IH. reflexivity. Qed.

Lemma pendcount_upd ps pid st : nth_error ps pid = Some PPend -> st <> PPend -> (pendcount (upd pid st ps) + 1 = pendcount ps)%nat.
Proof.
  revert pid; induction ps as [|p ps IH]; intros pid H Hs; [destruct pid; discriminate|].
  destruct pid as [|pid]; cbn [nth_error] in H.
  - inversion H; subst. cbn [upd]. unfold pendcount. cbn [filter]. destruct st; try congruence; cbn [length]; lia.
  - cbn [upd]. unfold pendcount in *. cbn [filter]. specialize (IH pid H Hs). destruct p; cbn [length]; lia.
Qed.

Lemma set_status_same cid cs cl : nth_error cs cid = Some cl -> set_status cid (c_st cl) cs = cs.
Proof.
  intros H. unfold set_status. rewrite H. destruct cl as [q st]. cbn [c_rpc c_st].
  revert cid H; induction cs as [|c cs IH]; intros cid H; [destruct cid; discriminate|].
  destruct cid as [|cid]; cbn [nth_error] in H.
  - inversion H; subst. reflexivity.
  - cbn [upd]. rewrite (IH cid H). reflexivity.
Qed.

Lemma node_exec_parts n q f : parts (fst (node_exec n q f)) = parts n.
Proof.
  unfold node_exec. destruct f; try reflexivity.
  - destruct q as [|m g v|m a cm su am bl| | |pid|b a f' d r]; cbn [fst].
    + reflexivity.
    + destruct (ds n) as [[v0 cur]|]; destruct m; try reflexivity; destruct g as [g'|]; try reflexivity; destruct (g' =? cur); reflexivity.
    + destruct (mem_att a (atts n)); destruct m; reflexivity.
    + reflexivity.
    + reflexivity.
    + destruct (nth_error (parts n) pid) as [[| |]|]; reflexivity.
    + reflexivity.
  - destruct q as [|m g v|m a cm su am bl| | |pid|b a f' d r]; cbn [fst].
    + reflexivity.
    + destruct (ds n) as [[v0 cur]|]; destruct m; try reflexivity; destruct g as [g'|]; try reflexivity; destruct (g' =? cur); reflexivity.
    + destruct (mem_att a (atts n)); destruct m; reflexivity.
    + reflexivity.
    + reflexivity.
    + destruct (nth_error (parts n) pid) as [[| |]|]; reflexivity.
    + reflexivity.
Qed.

Lemma W_delivered cid cs q y : nth_error cs cid = Some {| c_rpc := q; c_st := Replied y |} ->
  (W (set_status cid Delivered cs) + 1 = W cs)%nat.
Proof. intros H. pose proof (W_set_status cid Delivered cs _ H) as E. unfold callw in E. cbn [c_st c_rpc] in E. lia. Qed.

Lemma number_from_length b l : length (number_from b l) = length l.
Proof. revert b; induction l as [|x l IH]; intros b; cbn [number_from length]; [reflexivity|]. rewrite IH. reflexivity. Qed.

(* in a wait state the pay command (if there was one) is over: no event can create a part *)
Lemma no_new_no_running s cid b a f d r st : no_new s -> nth_error (ps_calls s) cid = Some {| c_rpc := QPay b a f d r; c_st := st |} ->
  st <> Unprocessed /\ st <> Running.
Proof. intros (_ & H) Hc. specialize (H cid _ Hc). cbn in H. tauto. Qed.

Definition waiting (s : psys) : option waitst := match ps_st s with SWait w | SPayWait w => Some w | _ => None end.

Lemma PInv_waiting s w : PInv s -> waiting s = Some w -> no_new s /\ wait_inv s w.
Proof. unfold PInv, waiting. destruct (ps_st s); intros H E; inversion E; subst; exact H. Qed.

(* the weight of the state after a delivery, whatever the wrapper *)
Lemma deliver_decreases s w cid q y (wrap : waitst -> pst) :
  (forall w', wrap w' = SWait w' \/ wrap w' = SPayWait w') ->
  ps_st s = wrap w -> wait_inv s w ->
  nth_error (ps_calls s) cid = Some {| c_rpc := q; c_st := Replied y |} ->
  let base := length (ps_calls s) in
  let cs := set_status cid Delivered (ps_calls s) in
  let s' := match wait_deliver base w cid y with
            | None => {| ps_nd := ps_nd s; ps_calls := cs; ps_st := ps_st s |}
            | Some (WGo w' new) => {| ps_nd := ps_nd s; ps_calls := cs ++ mk_calls new; ps_st := wrap w' |}
            | Some (WFin r cancel) => {| ps_nd := ps_nd s; ps_calls := cancel_calls cancel cs; ps_st := SFin (res_of_wait r) |}
            end in
  (ppot s' < ppot s)%nat.
Proof.
  intros Hwrap Hst Hw Hc base cs s'.
  pose proof (W_delivered cid (ps_calls s) q y Hc) as HW. fold cs in HW.
  assert (Hstage : stage s = stage_w s w) by (unfold stage; rewrite Hst; destruct (Hwrap w) as [-> | ->]; reflexivity).
  unfold ppot. rewrite Hstage. subst s'.
  destruct w as [k|k l|aw]; cbn [wait_deliver].
  - (* WListP *)
    destruct (Nat.eqb_spec k cid) as [->|Hne]; cbn [negb].
    + cbn [stage_w]. rewrite Hc.
      destruct y as [| | |ps| | | | |]; cbn [ps_nd ps_calls ps_st stage];
        try (pose proof (W_cancel [] cs); cbn [cancel_calls fold_left] in *; lia).
      destruct (Hwrap (WListD base ps)) as [E|E]; rewrite E; unfold stage; cbn [ps_st ps_calls ps_nd stage_w]; rewrite W_app, W_mk_calls; cbn [length]; lia.
    + cbn [ps_nd ps_calls ps_st]. unfold stage. rewrite Hst.
      assert (stage_w {| ps_nd := ps_nd s; ps_calls := cs; ps_st := wrap (WListP k) |} (WListP k) = stage_w s (WListP k)) as Es.
      { cbn [stage_w ps_calls ps_nd]. unfold cs. rewrite nth_set_status_other by congruence. reflexivity. }
      destruct (Hwrap (WListP k)) as [E|E]; rewrite E; cbn [ps_st]; rewrite E in Es; rewrite Es; lia.
  - (* WListD *)
    destruct (Nat.eqb_spec k cid) as [->|Hne]; cbn [negb].
    + cbn [stage_w].
      destruct y as [| | | |[|p ps']| | | |]; cbn [ps_nd ps_calls ps_st stage];
        try (pose proof (W_cancel [] cs); cbn [cancel_calls fold_left] in *; lia).
      destruct l as [|x l']; cbn [ps_nd ps_calls ps_st stage]; [pose proof (W_cancel [] cs); cbn [cancel_calls fold_left] in *; lia|].
      destruct (Hwrap (WParts (number_from base (x :: l')))) as [E|E]; rewrite E; unfold stage; cbn [ps_st ps_calls ps_nd stage_w]; rewrite W_app, W_mk_calls, map_length; cbn [length]; lia.
    + cbn [ps_nd ps_calls ps_st]. unfold stage. rewrite Hst.
      destruct (Hwrap (WListD k l)) as [E|E]; rewrite E; unfold stage; cbn [ps_st ps_calls ps_nd stage_w]; lia.
  - (* WParts *)
    destruct (existsb (fun x => Nat.eqb (snd x) cid) aw); cbn [negb].
    + cbn [stage_w].
      set (rest := filter (fun x => negb (Nat.eqb (snd x) cid)) aw).
      destruct y; cbn [ps_nd ps_calls ps_st stage]; try (pose proof (W_cancel (map snd rest) cs); lia).
      destruct rest as [|x rest'] eqn:Er; cbn [ps_nd ps_calls ps_st stage]; [pose proof (W_cancel [] cs); cbn [cancel_calls fold_left] in *; lia|].
      destruct (Hwrap (WParts (x :: rest'))) as [E|E]; rewrite E; unfold stage; cbn [ps_st ps_calls ps_nd stage_w]; rewrite W_app; cbn [mk_calls map W fold_right]; lia.
    + cbn [ps_nd ps_calls ps_st]. unfold stage. rewrite Hst.
      destruct (Hwrap (WParts aw)) as [E|E]; rewrite E; unfold stage; cbn [ps_st ps_calls ps_nd stage_w]; lia.
Qed.

Lemma node_exec_none n q f n' : node_exec n q f = (n', None) ->
  (n' = n /\ exists pid, q = QWaitPart pid) \/ (exists b a f0 d r, q = QPay b a f0 d r).
Proof.
  unfold node_exec. destruct f; try discriminate.
  - destruct q as [|m g v|m a cm su am bl| | |pid|b a f' d r]; cbn.
    + discriminate.
    + destruct (ds n) as [[v0 cur]|]; destruct m; try discriminate; destruct g as [g'|]; try discriminate; destruct (g' =? cur); discriminate.
    + destruct (mem_att a (atts n)); destruct m; discriminate.
    + discriminate.
    + discriminate.
    + destruct (nth_error (parts n) pid) as [[| |]|]; try discriminate. intros H; inversion H. left. eauto.
    + intros _. right. eauto 10.
  - destruct q as [|m g v|m a cm su am bl| | |pid|b a f' d r]; cbn.
    + discriminate.
    + destruct (ds n) as [[v0 cur]|]; destruct m; try discriminate; destruct g as [g'|]; try discriminate; destruct (g' =? cur); discriminate.
    + destruct (mem_att a (atts n)); destruct m; discriminate.
    + discriminate.
    + discriminate.
    + destruct (nth_error (parts n) pid) as [[| |]|]; discriminate.
    + intros _. right. eauto 10.
Qed.

Lemma stage_w_same_calls s s' w : parts (ps_nd s') = parts (ps_nd s) ->
  (forall k, match w with WListP k0 => k = k0 | _ => False end -> nth_error (ps_calls s') k = nth_error (ps_calls s) k) ->
  stage_w s' w = stage_w s w.
Proof. intros Hp Hc. destruct w as [k|k l|aw]; cbn [stage_w]; [|reflexivity|reflexivity]. rewrite (Hc k eq_refl), Hp. reflexivity. Qed.

(* every state-changing event of a machine that has not returned yet lowers the potential *)
Lemma peffective_decreases s ev w : PInv s -> waiting s = Some w -> peffective s ev -> (ppot (pstep s ev) < ppot s)%nat.
Proof.
  intros HP Hw He. destruct (PInv_waiting s w HP Hw) as (Hnn & Hwi).
  assert (Hwrap : exists wrap, (forall w', wrap w' = SWait w' \/ wrap w' = SPayWait w') /\ ps_st s = wrap w).
  { unfold waiting in Hw. destruct (ps_st s) as [w0| |w0|] eqn:Es; inversion Hw; subst; [exists SWait|exists SPayWait]; split; auto. }
  destruct Hwrap as (wrap & Hwrap & Hst).
  assert (Hstage : stage s = stage_w s w) by (unfold stage; rewrite Hst; destruct (Hwrap w) as [-> | ->]; reflexivity).
  unfold peffective in He. destruct ev as [cid f|cid|pid st|cid|cid o]; cbn [pstep] in *.
  - (* the node processes a call *)
    destruct (nth_error (ps_calls s) cid) as [[q [| |y0| | |]]|] eqn:Ec; try congruence.
    destruct (node_exec (ps_nd s) q f) as [n' y] eqn:En.
    assert (Hparts : parts n' = parts (ps_nd s)) by (pose proof (node_exec_parts (ps_nd s) q f) as X; rewrite En in X; exact X).
    destruct y as [r|].
    + (* answered *)
      pose proof (W_set_status cid (Replied r) (ps_calls s) _ Ec) as HW. unfold callw in HW. cbn [c_st c_rpc] in HW.
      unfold ppot. cbn [ps_nd ps_calls ps_st]. rewrite Hparts, Hstage. unfold stage. cbn [ps_st]. rewrite Hst.
      assert (Es : stage_w {| ps_nd := n'; ps_calls := set_status cid (Replied r) (ps_calls s); ps_st := wrap w |} w = stage_w s w).
      { destruct w as [k|k l|aw]; cbn [stage_w]; try reflexivity. cbn [ps_calls ps_nd]. rewrite Hparts.
        destruct (Nat.eq_dec k cid) as [->|Hne].
        - rewrite (nth_set_status_same cid (Replied r) _ _ Ec), Ec. cbn [c_rpc].
          (* call k is the pending-parts query: an answer lists exactly the pending parts *)
          cbn in Hwi. destruct Hwi as (st & Hk & _). rewrite Ec in Hk. inversion Hk; subst q.
          unfold node_exec in En. destruct f; cbn in En; inversion En; subst; try reflexivity.
          rewrite pend_ids_length. reflexivity.
        - rewrite nth_set_status_other by congruence. reflexivity. }
      destruct (Hwrap w) as [E|E]; rewrite E in *; cbn [ps_st]; rewrite Es; lia.
    + (* no answer yet: a pay command starting (impossible here) or a wait on a pending part (no change) *)
      exfalso. destruct (node_exec_none _ _ _ _ En) as [[-> [pid ->]]|(b & a & f0 & d & r & ->)].
      * apply He. pose proof (set_status_same cid _ _ Ec) as X. cbn [c_st] in X. rewrite X. destruct s; reflexivity.
      * destruct (no_new_no_running s cid _ _ _ _ _ _ Hnn Ec) as [H1 _]. congruence.
  - (* a reply reaches the plugin *)
    destruct (nth_error (ps_calls s) cid) as [[q [| |y| | |]]|] eqn:Ec; try congruence.
    unfold p_deliver.
    destruct (Hwrap w) as [E|E]; rewrite E in Hst.
    + pose proof (deliver_decreases s w cid q y SWait (fun w' => or_introl eq_refl) Hst Hwi Ec) as X. cbv zeta in X.
      rewrite Hst in *. cbv beta iota zeta. exact X.
    + pose proof (deliver_decreases s w cid q y SPayWait (fun w' => or_intror eq_refl) Hst Hwi Ec) as X. cbv zeta in X.
      rewrite Hst in *. cbv beta iota zeta. exact X.
  - (* a pending part resolves *)
    destruct (nth_error (parts (ps_nd s)) pid) as [[| |]|] eqn:Ep; try congruence.
    destruct st as [|p|]; try congruence.
    + pose proof (pendcount_upd _ pid (PDone p) Ep ltac:(discriminate)) as Hc.
      unfold ppot, stage. cbn [ps_nd ps_calls ps_st set_parts parts]. rewrite Hst.
      destruct (Hwrap w) as [E|E]; rewrite E; destruct w as [k|k l|aw]; cbn [stage_w ps_calls ps_nd set_parts parts];
        try lia; destruct (nth_error (ps_calls s) k) as [[? [| |[]| | |]]|]; lia.
    + pose proof (pendcount_upd _ pid PFailed Ep ltac:(discriminate)) as Hc.
      unfold ppot, stage. cbn [ps_nd ps_calls ps_st set_parts parts]. rewrite Hst.
      destruct (Hwrap w) as [E|E]; rewrite E; destruct w as [k|k l|aw]; cbn [stage_w ps_calls ps_nd set_parts parts];
        try lia; destruct (nth_error (ps_calls s) k) as [[? [| |[]| | |]]|]; lia.
  - (* a running pay command creates a part: there is none *)
    destruct (nth_error (ps_calls s) cid) as [[q st]|] eqn:Ec; [|congruence].
    destruct q; try congruence. destruct st; try congruence.
    destruct (no_new_no_running s cid _ _ _ _ _ _ Hnn Ec) as [_ H2]. congruence.
  - destruct (nth_error (ps_calls s) cid) as [[q st]|] eqn:Ec; [|congruence].
    destruct q; try congruence. destruct st; try congruence.
    destruct (no_new_no_running s cid _ _ _ _ _ _ Hnn Ec) as [_ H2]. congruence.
Qed.

Definition nospay (s : psys) : Prop := forall k, ps_st s <> SPay k.

Lemma pstep_st_cases s ev : ps_st (pstep s ev) = ps_st s \/ exists cid y, ev = PvDeliver cid /\ pstep s ev = p_deliver s cid y.
Proof.
  destruct ev as [cid f|cid|pid st|cid|cid o]; cbn [pstep].
  - left. destruct (nth_error (ps_calls s) cid) as [[q [| | | | |]]|]; try reflexivity. destruct (node_exec (ps_nd s) q f). reflexivity.
  - destruct (nth_error (ps_calls s) cid) as [[q [| |y| | |]]|]; try (left; reflexivity). right. eauto.
  - left. destruct (nth_error (parts (ps_nd s)) pid) as [[| |]|]; destruct st; reflexivity.
  - left. destruct (nth_error (ps_calls s) cid) as [[[] [| | | | |]]|]; reflexivity.
  - left. destruct (nth_error (ps_calls s) cid) as [[q st]|]; [|reflexivity]. destruct q; try reflexivity. destruct st; reflexivity.
Qed.

Lemma deliver_st s cid y : nospay s ->
  nospay (p_deliver s cid y) /\ (waiting s = None -> waiting (p_deliver s cid y) = None).
Proof.
  intros Hn. unfold p_deliver, nospay, waiting. destruct (ps_st s) as [w|k|w|r] eqn:Es.
  - destruct (wait_deliver _ w cid y) as [[w' new|r cancel]|]; cbn [ps_st]; rewrite ?Es; split; try discriminate; intros; discriminate.
  - exfalso. exact (Hn k Es).
  - destruct (wait_deliver _ w cid y) as [[w' new|r cancel]|]; cbn [ps_st]; rewrite ?Es; split; try discriminate; intros; discriminate.
  - cbn [ps_st]. rewrite ?Es. split; [discriminate|reflexivity].
Qed.

Lemma nospay_step s ev : nospay s -> nospay (pstep s ev) /\ (waiting s = None -> waiting (pstep s ev) = None).
Proof.
  intros Hn. destruct (pstep_st_cases s ev) as [E|(cid & y & _ & E)].
  - unfold nospay, waiting. rewrite E. split; [exact Hn|auto].
  - rewrite E. apply deliver_st, Hn.
Qed.

Lemma returned_stays evs : forall s, nospay s -> waiting s = None -> waiting (prun s evs) = None.
Proof.
  induction evs as [|e evs IH]; intros s Hn Hw; [exact Hw|]. cbn [prun fold_left].
  destruct (nospay_step s e Hn) as [Hn' Hw']. apply IH; auto.
Qed.

(* wait_payment cannot stay un-returned for more than [ppot s] state-changing steps: on EVERY schedule (the node answering in any
   order, errors injected, replies delayed, parts resolving at any moment) a run in which every step does something returns *)
Theorem wait_effective_runs_are_bounded evs : forall s,
  PInv s -> nospay s -> hist_ok s evs = true ->
  (forall k e, nth_error evs k = Some e -> peffective (prun s (firstn k evs)) e) ->
  waiting (prun s evs) <> None ->
  (length evs <= ppot s)%nat.
Proof.
  induction evs as [|e evs IH]; intros s HP Hn Hok Heff Hw; [cbn; lia|].
  cbn [hist_ok] in Hok. apply andb_prop in Hok as [Hwf Hok].
  destruct (waiting s) as [w|] eqn:Ews.
  - pose proof (Heff 0%nat e eq_refl) as H0. cbn [firstn prun fold_left] in H0.
    pose proof (peffective_decreases s e w HP Ews H0) as Hd.
    assert (HP' : PInv (pstep s e)) by (apply PInv_step; assumption).
    assert (Hrest : (length evs <= ppot (pstep s e))%nat).
    { apply IH; [exact HP'|exact (proj1 (nospay_step s e Hn))|exact Hok| |exact Hw].
      intros k e' Hk. specialize (Heff (S k) e' Hk). cbn [firstn prun fold_left] in Heff. exact Heff. }
    cbn [length]. lia.
  - exfalso. apply Hw. apply returned_stays; assumption.
Qed.

(* ---------- and it is never at rest while it has not returned ---------- *)
Definition NE (s : psys) : Prop := match waiting s with Some (WParts []) => False | _ => True end.

Lemma wait_deliver_NE base w cid y w' new : wait_deliver base w cid y = Some (WGo w' new) -> w' <> WParts [].
Proof.
  destruct w as [k|k l|aw]; cbn [wait_deliver].
  - destruct (negb (Nat.eqb k cid)); [discriminate|]. destruct y; intros H; inversion H; discriminate.
  - destruct (negb (Nat.eqb k cid)); [discriminate|]. destruct y as [| | | |[|p ps']| | | |]; try (intros H; inversion H; fail).
    destruct l as [|x l']; intros H; inversion H. cbn [number_from]. discriminate.
  - destruct (negb (existsb _ aw)); [discriminate|]. destruct y; try (intros H; inversion H; fail).
    destruct (filter _ aw) as [|x r]; intros H; inversion H. discriminate.
Qed.

Lemma NE_step s ev : NE s -> NE (pstep s ev).
Proof.
  intros Hne. destruct (pstep_st_cases s ev) as [E|(cid & y & _ & E)].
  - unfold NE, waiting in *. rewrite E. exact Hne.
  - rewrite E. unfold NE, waiting, p_deliver in *. destruct (ps_st s) as [w|k|w|r] eqn:Es.
    + destruct (wait_deliver _ w cid y) as [[w' new|r cancel]|] eqn:Ed; cbn [ps_st]; rewrite ?Es; try exact I; try exact Hne.
      destruct w' as [| |[|x aw]]; try exact I. exact (wait_deliver_NE _ _ _ _ _ _ Ed eq_refl).
    + destruct (negb (Nat.eqb k cid)); cbn [ps_st]; rewrite ?Es; try exact I. destruct (pay_reply y); cbn [ps_st]; exact I.
    + destruct (wait_deliver _ w cid y) as [[w' new|r cancel]|] eqn:Ed; cbn [ps_st]; rewrite ?Es; try exact I; try exact Hne.
      destruct w' as [| |[|x aw]]; try exact I. exact (wait_deliver_NE _ _ _ _ _ _ Ed eq_refl).
    + cbn [ps_st]. rewrite ?Es. exact I.
Qed.

Lemma NE_run evs : forall s, NE s -> NE (prun s evs).
Proof. induction evs as [|e evs IH]; intros s H; [exact H|]. cbn [prun fold_left]. apply IH, NE_step, H. Qed.

Lemma process_effective s cid q n' r : nth_error (ps_calls s) cid = Some {| c_rpc := q; c_st := Unprocessed |} ->
  node_exec (ps_nd s) q NoFault = (n', Some r) -> peffective s (PvProcess cid NoFault).
Proof.
  intros Hc En Heq. cbn [pstep] in Heq. rewrite Hc, En in Heq. apply (f_equal ps_calls) in Heq. cbn [ps_calls] in Heq.
  pose proof (nth_set_status_same cid (Replied r) _ _ Hc) as X. rewrite Heq, Hc in X. discriminate.
Qed.

Lemma deliver_effective s cid q y : nth_error (ps_calls s) cid = Some {| c_rpc := q; c_st := Replied y |} -> peffective s (PvDeliver cid).
Proof.
  intros Hc Heq. cbn [pstep] in Heq. rewrite Hc in Heq.
  assert (Hd : forall cs', (exists cl, nth_error cs' cid = Some cl /\ (c_st cl = Delivered \/ c_st cl = Cancelled)) -> cs' <> ps_calls s).
  { intros cs' (cl & H1 & H2) E. rewrite E, Hc in H1. inversion H1; subst cl. cbn in H2. destruct H2; discriminate. }
  assert (Hcs : exists cl, nth_error (set_status cid Delivered (ps_calls s)) cid = Some cl /\ (c_st cl = Delivered \/ c_st cl = Cancelled)).
  { eexists. split; [apply (nth_set_status_same cid Delivered _ _ Hc)|left; reflexivity]. }
  unfold p_deliver in Heq.
  assert (Hgo : forall w wrap, (match wait_deliver (length (ps_calls s)) w cid y with
            | None => {| ps_nd := ps_nd s; ps_calls := set_status cid Delivered (ps_calls s); ps_st := ps_st s |}
            | Some (WGo w' new) => {| ps_nd := ps_nd s; ps_calls := set_status cid Delivered (ps_calls s) ++ mk_calls new; ps_st := wrap w' |}
            | Some (WFin r cancel) => {| ps_nd := ps_nd s; ps_calls := cancel_calls cancel (set_status cid Delivered (ps_calls s)); ps_st := SFin (res_of_wait r) |}
            end) <> s).
  { intros w wrap E. apply (f_equal ps_calls) in E.
    destruct (wait_deliver _ w cid y) as [[w' new|r cancel]|]; cbn [ps_calls] in E.
    - refine (Hd _ _ E). destruct Hcs as (cl & H1 & H2). exists cl. split; [|exact H2].
      rewrite nth_error_app1; [exact H1|]. apply nth_error_Some. congruence.
    - refine (Hd _ _ E). destruct Hcs as (cl & H1 & H2).
      destruct (nth_error (cancel_calls cancel (set_status cid Delivered (ps_calls s))) cid) as [cl'|] eqn:Ecl.
      + destruct (cancel_calls_spec _ _ _ _ Ecl) as (cl0 & H0 & _ & _ & Hst). rewrite H1 in H0. inversion H0; subst cl0.
        exists cl'. split; [reflexivity|]. destruct Hst as [Hst|Hst]; [destruct H2 as [H2|H2]; rewrite Hst, H2; auto|right; exact Hst].
      + exfalso. apply nth_error_None in Ecl. rewrite cancel_calls_length in Ecl. apply nth_error_None in Ecl. congruence.
    - exact (Hd _ Hcs E). }
  destruct (ps_st s) as [w|k|w|r] eqn:Es.
  - exact (Hgo w SWait Heq).
  - destruct (negb (Nat.eqb k cid)).
    + apply (f_equal ps_calls) in Heq. exact (Hd _ Hcs Heq).
    + destruct (pay_reply y); apply (f_equal ps_calls) in Heq; cbn [ps_calls] in Heq.
      * exact (Hd _ Hcs Heq).
      * exact (Hd _ Hcs Heq).
      * refine (Hd _ _ Heq). destruct Hcs as (cl & H1 & H2). exists cl. split; [|exact H2].
        rewrite nth_error_app1; [exact H1|]. apply nth_error_Some. congruence.
  - exact (Hgo w SPayWait Heq).
  - apply (f_equal ps_calls) in Heq. exact (Hd _ Hcs Heq).
Qed.

Theorem waiting_is_never_at_rest s w : PInv s -> waiting s = Some w -> NE s ->
  exists ev, pwf s ev = true /\ peffective s ev.
Proof.
  intros HP Hw Hne. destruct (PInv_waiting s w HP Hw) as (_ & Hwi). unfold NE in Hne. rewrite Hw in Hne.
  destruct w as [k|k l|aw]; cbn in Hwi.
  - destruct Hwi as (st & Hk & Hst). destruct st as [| |y| | |]; try contradiction.
    + exists (PvProcess k NoFault). split; [reflexivity|]. eapply process_effective; [exact Hk|reflexivity].
    + exists (PvDeliver k). split; [reflexivity|]. eapply deliver_effective; exact Hk.
  - destruct Hwi as (_ & st & Hk & Hst). destruct st as [| |y| | |]; try contradiction.
    + exists (PvProcess k NoFault). split; [reflexivity|]. eapply process_effective; [exact Hk|reflexivity].
    + exists (PvDeliver k). split; [reflexivity|]. eapply deliver_effective; exact Hk.
  - destruct aw as [|[pid cid] aw]; [contradiction|]. destruct Hwi as (_ & Hall).
    destruct (Hall pid cid (or_introl eq_refl)) as (st & Hk & Hst). destruct st as [| |y| | |]; try contradiction.
    + destruct (nth_error (parts (ps_nd s)) pid) as [[|p|]|] eqn:Ep.
      * (* the awaited part is still pending: it is the environment's turn *)
        exists (PvPart pid PFailed). split; [reflexivity|]. intros Heq. cbn [pstep] in Heq. rewrite Ep in Heq.
        apply (f_equal (fun x => nth_error (parts (ps_nd x)) pid)) in Heq. cbn [ps_nd set_parts parts] in Heq.
        rewrite nth_error_upd_same in Heq by (apply nth_error_Some; congruence). congruence.
      * exists (PvProcess cid NoFault). split; [reflexivity|]. eapply process_effective; [exact Hk|]. cbn. rewrite Ep. reflexivity.
      * exists (PvProcess cid NoFault). split; [reflexivity|]. eapply process_effective; [exact Hk|]. cbn. rewrite Ep. reflexivity.
      * exists (PvProcess cid NoFault). split; [reflexivity|]. eapply process_effective; [exact Hk|]. cbn. rewrite Ep. reflexivity.
    + exists (PvDeliver cid). split; [reflexivity|]. eapply deliver_effective; exact Hk.
Qed.
