(* SysBasics.v — structural lemmas about Model/Sys.v used by every invariant proof:
   list updates, the call table, who owns a call, what installing a lifecycle step does. *)
From Tramp Require Import Model.Base Model.Fee Model.Classify Model.Node Model.Provider Model.Sys.
From Tramp Require Export Proofs.ProviderProofs.
From Coq Require Import ZifyBool ZifyNat ZifyN.

Arguments e_handle : simpl never.
Arguments node_exec : simpl never.
Arguments fee_sufficient : simpl never.

(* ---------- pcs ---------- *)
Definition attached (p : pc) : bool :=
  match p with PMS1 _ _ _ | PMS2 _ _ | PMFp1 _ _ _ | PMFp2 _ _ _ | PEnd => false | _ => true end.

(* call ids a pc is waiting on *)
Definition awaits (p : pc) : list nat :=
  match p with
  | PFetch k | PMarkF1 k _ _ _ | PMarkF2 k _ _ _ | PAdd1 k _ _ _ _ | PAdd2 k _ _ _ _ _ | PPay k _ _
  | PMS1 k _ _ | PMS2 k _ | PMFp1 k _ _ | PMFp2 k _ _ => [k]
  | PWait _ (WListP k) | PWait _ (WListD k _) => [k]
  | PWait _ (WParts aw) => map snd aw
  | PSelect _ | PEnd | PPanicked => []
  end.

Lemma lc_deliver_awaits c li base hgt tnow p cid y sel e na a :
  lc_deliver c li base hgt tnow p cid y sel e na = Some a -> In cid (awaits p).
Proof.
  destruct p; cbn [lc_deliver awaits]; try discriminate;
  try (destruct (Nat.eqb cid0 cid) eqn:E; cbn [negb]; [apply Nat.eqb_eq in E; subst; intros _; left; reflexivity|discriminate]).
  destruct w as [k0|k0 l|aw]; cbn [wait_deliver awaits].
  - destruct (Nat.eqb k0 cid) eqn:E; cbn [negb]; [apply Nat.eqb_eq in E; subst; intros _; left; reflexivity|discriminate].
  - destruct (Nat.eqb k0 cid) eqn:E; cbn [negb]; [apply Nat.eqb_eq in E; subst; intros _; left; reflexivity|discriminate].
  - destruct (existsb (fun x => Nat.eqb (snd x) cid) aw) eqn:E; cbn [negb]; [|discriminate].
    intros _. apply existsb_exists in E as ((pid & c0) & Hin & Hc). cbn in Hc. apply Nat.eqb_eq in Hc. subst.
    apply in_map_iff. exists (pid, cid). auto.
Qed.

(* ---------- find_owner / find_select ---------- *)
Lemma find_owner_spec c cid y sel e base hgt tnow na : forall l i j a,
  find_owner c i l cid y sel e base hgt tnow na = Some (j, a) ->
  exists x, nth_error l (j - i) = Some x /\ (i <= j)%nat /\
            lc_deliver c (l_info x) base hgt tnow (l_pc x) cid y sel e na = Some a.
Proof.
  induction l as [|x r IH]; intros i j a H; cbn [find_owner] in H; [discriminate|].
  destruct (lc_deliver c (l_info x) base hgt tnow (l_pc x) cid y sel e na) as [a0|] eqn:E.
  - inversion H; subst. exists x. rewrite Nat.sub_diag. cbn. auto.
  - destruct (IH _ _ _ H) as (x' & Hn & Hle & Hd). exists x'.
    replace (j - i)%nat with (S (j - S i)) by lia. cbn. repeat split; auto. lia.
Qed.

Lemma find_select_spec : forall l i j d li,
  find_select i l = Some (j, d, li) ->
  exists x, nth_error l (j - i) = Some x /\ l_pc x = PSelect d /\ l_info x = li /\ (i <= j)%nat.
Proof.
  induction l as [|x r IH]; intros i j d li H; cbn [find_select] in H; [discriminate|].
  destruct (l_pc x) eqn:Hpc;
    try (destruct (IH _ _ _ _ H) as (y & Hy & Hp & Hi & Hle); exists y;
         replace (j - i)%nat with (S (j - S i)) by lia; cbn; repeat split; auto; lia).
  inversion H; subst. exists x. rewrite Nat.sub_diag. cbn. auto.
Qed.

(* ---------- counting attached lifecycles ---------- *)
Definition b2n (b : bool) : nat := if b then 1%nat else 0%nat.
Fixpoint n_att (l : list lc) : nat := match l with [] => 0%nat | x :: r => (b2n (attached (l_pc x)) + n_att r)%nat end.

Lemma n_att_app l1 l2 : n_att (l1 ++ l2) = (n_att l1 + n_att l2)%nat.
Proof. induction l1 as [|x r IH]; cbn; [reflexivity|]. rewrite IH. lia. Qed.

Lemma n_att_upd : forall i x l y, nth_error l i = Some y ->
  (n_att (upd i x l) + b2n (attached (l_pc y)) = n_att l + b2n (attached (l_pc x)))%nat.
Proof.
  induction i as [|i IH]; intros x l y H; destruct l as [|z r]; cbn in *; try discriminate.
  - inversion H; subst. lia.
  - specialize (IH x r y H). lia.
Qed.

Lemma n_att_zero_none l : n_att l = 0%nat -> forall i x, nth_error l i = Some x -> attached (l_pc x) = false.
Proof.
  induction l as [|z r IH]; intros H [|i] x Hx; cbn in *; try discriminate.
  - inversion Hx; subst. destruct (attached (l_pc x)); [cbn in H; lia|reflexivity].
  - apply (IH ltac:(destruct (attached (l_pc z)); cbn in H; lia) i x Hx).
Qed.

Lemma n_att_one_unique l : n_att l = 1%nat -> forall i j x y,
  nth_error l i = Some x -> nth_error l j = Some y -> attached (l_pc x) = true -> attached (l_pc y) = true -> i = j.
Proof.
  induction l as [|z r IH]; intros H i j x y Hx Hy Ax Ay; [destruct i; discriminate|].
  destruct i as [|i], j as [|j]; cbn in *; auto.
  - inversion Hx; subst. rewrite Ax in H. cbn in H.
    pose proof (n_att_zero_none r ltac:(lia) j y Hy). congruence.
  - inversion Hy; subst. rewrite Ay in H. cbn in H.
    pose proof (n_att_zero_none r ltac:(lia) i x Hx). congruence.
  - f_equal. apply (IH ltac:(destruct (attached (l_pc z)); cbn in H; [|lia];
      pose proof (n_att_zero_none r ltac:(lia) i x Hx); congruence) i j x y Hx Hy Ax Ay).
Qed.

Lemma n_att_ge l i x : nth_error l i = Some x -> attached (l_pc x) = true -> (1 <= n_att l)%nat.
Proof.
  revert i; induction l as [|z r IH]; intros [|i] Hx Ax; cbn in *; try discriminate.
  - inversion Hx; subst. rewrite Ax. cbn. lia.
  - specialize (IH _ Hx Ax). lia.
Qed.

(* ---------- the shape of a lifecycle step with respect to attachment and the entry ---------- *)
Definition adv_ok (was_att : bool) (e : option entry) (a : adv) : Prop :=
  if was_att then
    match e with
    | Some _ => (attached (a_pc a) = true /\ a_entry a <> None) \/ (attached (a_pc a) = false /\ a_entry a = None)
    | None => True
    end
  else attached (a_pc a) = false /\ a_entry a = e.

Ltac crush_adv := unfold adv_ok, do_resolve, stay, panicked, go_pay, succeed, pay_failed, wait_some, wait_none, wait_err,
                    enter_select, select_poll, start_wait in *; cbn in *.

Lemma do_resolve_ok e r p qs ex cn na : attached p = false -> adv_ok true e (do_resolve e r p qs ex cn na).
Proof. intros; crush_adv; destruct e; cbn; auto. Qed.

Lemma select_poll_ok c li base hgt tnow d e sel na : adv_ok true e (select_poll c li base hgt tnow d e sel na).
Proof.
  crush_adv. destruct e as [en|]; auto. destruct (rdy_q en), (fail_q en); try destruct sel; cbn; auto;
  left; split; auto; discriminate.
Qed.

Lemma enter_select_ok c li base hgt tnow d e sel na : adv_ok true e (enter_select c li base hgt tnow d e sel na).
Proof. unfold enter_select. destruct (d =? 0); [apply do_resolve_ok; reflexivity|apply select_poll_ok]. Qed.

Lemma lc_deliver_ok c li base hgt tnow p cid y sel e na a :
  lc_deliver c li base hgt tnow p cid y sel e na = Some a -> adv_ok (attached p) e a.
Proof.
  destruct p; cbn [lc_deliver attached]; try discriminate.
  - (* PFetch *) destruct (negb _); [discriminate|]. intros H; inversion H; subst; clear H.
    destruct y as [[[[| | |] ?]|]| | | | | | | |]; try (apply enter_select_ok); try (apply do_resolve_ok; reflexivity).
    crush_adv. destruct e; auto. left; split; auto; discriminate.
  - (* PWait *)
    destruct (wait_deliver base w cid y) as [[w' new|[p| |] cancel]|]; try discriminate; intros H; inversion H; subst; clear H.
    + crush_adv. destruct e; auto. left; split; auto; discriminate.
    + destruct k; apply do_resolve_ok; reflexivity.
    + destruct k; [|apply do_resolve_ok; reflexivity]. crush_adv. destruct e; auto. left; split; auto; discriminate.
    + destruct k; [|apply do_resolve_ok; reflexivity]. crush_adv. destruct e; auto. left; split; auto; discriminate.
  - destruct (negb _); [discriminate|]. intros H; inversion H; subst; clear H.
    destruct y; try (apply do_resolve_ok; reflexivity). crush_adv. destruct e; auto. left; split; auto; discriminate.
  - destruct (negb _); [discriminate|]. intros H; inversion H; subst; clear H.
    destruct y; try (apply do_resolve_ok; reflexivity). apply enter_select_ok.
  - destruct (negb _); [discriminate|]. intros H; inversion H; subst; clear H.
    destruct y; try (apply do_resolve_ok; reflexivity). crush_adv. destruct e; auto. left; split; auto; discriminate.
  - destruct (negb _); [discriminate|]. intros H; inversion H; subst; clear H.
    destruct y; try (apply do_resolve_ok; reflexivity). crush_adv. destruct e; auto. left; split; auto; discriminate.
  - destruct (negb _); [discriminate|]. intros H; inversion H; subst; clear H.
    destruct (pay_reply y); try (apply do_resolve_ok; reflexivity). crush_adv. destruct e; auto. left; split; auto; discriminate.
  - destruct (negb _); [discriminate|]. intros H; inversion H; subst; clear H. destruct y; cbn; auto.
  - destruct (negb _); [discriminate|]. intros H; inversion H; subst; clear H. cbn; auto.
  - destruct (negb _); [discriminate|]. intros H; inversion H; subst; clear H. destruct y; cbn; auto.
  - destruct (negb _); [discriminate|]. intros H; inversion H; subst; clear H. cbn; auto.
Qed.

(* ---------- the uniqueness invariant U ---------- *)
Definition InvU (s : sys) : Prop :=
  match entry_ (pl s) with Some _ => n_att (lcs (pl s)) = 1%nat | None => n_att (lcs (pl s)) = 0%nat end.

Lemma InvU_attached_entry s i x : InvU s -> nth_error (lcs (pl s)) i = Some x -> attached (l_pc x) = true -> entry_ (pl s) <> None.
Proof.
  unfold InvU. intros H Hx Ax E. rewrite E in H. pose proof (n_att_ge _ _ _ Hx Ax). lia.
Qed.

Lemma apply_adv_lcs s i a x :
  nth_error (lcs (pl s)) i = Some x ->
  lcs (pl (fst (apply_adv s i a))) = upd i (set_pc x (a_pc a)) (lcs (pl s)) /\
  entry_ (pl (fst (apply_adv s i a))) = a_entry a /\
  nd (fst (apply_adv s i a)) = nd s /\ now (fst (apply_adv s i a)) = now s /\ height (fst (apply_adv s i a)) = height s /\
  calls (fst (apply_adv s i a)) = cancel_calls (a_cancel a) (calls s) ++ mk_calls (a_new a) /\
  next_att (pl (fst (apply_adv s i a))) = a_att a.
Proof. intros H. unfold apply_adv. cbn. rewrite H. auto 10. Qed.

Lemma apply_adv_InvU s i a x :
  InvU s -> nth_error (lcs (pl s)) i = Some x -> adv_ok (attached (l_pc x)) (entry_ (pl s)) a -> InvU (fst (apply_adv s i a)).
Proof.
  intros HI Hn Hok. destruct (apply_adv_lcs s i a x Hn) as (Hl & He & _).
  unfold InvU. rewrite Hl, He.
  pose proof (n_att_upd i (set_pc x (a_pc a)) _ _ Hn) as Hu. cbn [set_pc l_pc] in Hu.
  unfold adv_ok in Hok. unfold InvU in HI.
  destruct (attached (l_pc x)) eqn:Ha.
  - destruct (entry_ (pl s)) eqn:Ee.
    + destruct Hok as [[H1 H2]|[H1 H2]]; rewrite H1 in Hu; cbn in Hu.
      * destruct (a_entry a); [lia|congruence].
      * rewrite H2. lia.
    + pose proof (n_att_ge _ _ _ Hn Ha). lia.
  - destruct Hok as [H1 H2]. rewrite H1, H2 in *. cbn in Hu. destruct (entry_ (pl s)); lia.
Qed.

Lemma fire_timers_none : forall l e t, n_att l = 0%nat -> fire_timers l e t = (l, e, []).
Proof.
  induction l as [|x r IH]; intros e t H; cbn [fire_timers]; [reflexivity|].
  cbn in H. destruct (l_pc x) eqn:Hpc; cbn in H; try lia; rewrite IH by lia; reflexivity.
Qed.

Lemma fire_timers_InvU : forall l en t l' e' o',
  n_att l = 1%nat -> fire_timers l (Some en) t = (l', e', o') ->
  match e' with Some _ => n_att l' = 1%nat | None => n_att l' = 0%nat end.
Proof.
  induction l as [|x r IH]; intros en t l' e' o' Hn H; cbn [fire_timers] in H; [cbn in Hn; lia|].
  cbn in Hn. destruct (attached (l_pc x)) eqn:Ha; cbn in Hn.
  - assert (Hr : n_att r = 0%nat) by lia.
    destruct (l_pc x) eqn:Hpc; cbn in Ha; try discriminate;
      try (rewrite fire_timers_none in H by exact Hr; inversion H; subst; cbn; rewrite Hpc; cbn; lia).
    destruct (deadline <=? t).
    + rewrite fire_timers_none in H by exact Hr. inversion H; subst. cbn. lia.
    + rewrite fire_timers_none in H by exact Hr. inversion H; subst. cbn. rewrite Hpc. cbn. lia.
  - destruct (l_pc x) eqn:Hpc; cbn in Ha; try discriminate;
      destruct (fire_timers r (Some en) t) as [[r' e1] o1] eqn:Hrr; inversion H; subst;
      specialize (IH _ _ _ _ _ ltac:(lia) Hrr); destruct e'; cbn; rewrite Hpc; cbn; lia.
Qed.

Lemma find_select_none l i : n_att l = 0%nat -> find_select i l = None.
Proof.
  revert i; induction l as [|z r IH]; intros i Hz; cbn in *; auto.
  destruct (l_pc z); cbn in Hz; try lia; apply IH; lia.
Qed.

Arguments apply_adv : simpl never.
Arguments select_poll : simpl never.
Arguments lc_deliver : simpl never.
Arguments fire_timers : simpl never.
Arguments find_owner : simpl never.

Theorem step_InvU c s ev : InvU s -> InvU (fst (step c s ev)).
Proof.
  intros HI. destruct ev; cbn [step].
  - (* EvHtlc *)
    destruct (entry_ (pl s)) eqn:He.
    + unfold InvU in *. cbn. rewrite He in HI. exact HI.
    + unfold InvU in *. rewrite He in HI. cbn. rewrite n_att_app. cbn. lia.
  - (* EvPoll *)
    destruct (find_select 0 (lcs (pl s))) as [[[i d] li]|] eqn:Hf; [|exact HI].
    destruct (find_select_spec _ _ _ _ _ Hf) as (x & Hx & Hp & Hli & _). rewrite Nat.sub_0_r in Hx.
    apply (apply_adv_InvU _ i _ x); [exact HI|exact Hx|]. rewrite Hp. exact (select_poll_ok _ _ _ _ _ _ _ _ _).
  - (* EvProcess *)
    destruct (nth_error (calls s) cid) as [cl|]; [|exact HI]. destruct (c_st cl); try exact HI.
    destruct (node_exec (nd s) (c_rpc cl) f) as [n' y]. exact HI.
  - (* EvDeliver *)
    destruct (nth_error (calls s) cid) as [cl|]; [|exact HI]. destruct (c_st cl); try exact HI.
    destruct (find_owner c 0 (lcs (pl s)) cid y sel (entry_ (pl s)) (length (calls s)) (height s) (now s) (next_att (pl s))) as [[i a]|] eqn:Hf; [|exact HI].
    destruct (find_owner_spec _ _ _ _ _ _ _ _ _ _ _ _ _ Hf) as (x & Hx & _ & Hd). rewrite Nat.sub_0_r in Hx.
    apply (apply_adv_InvU (with_calls s (set_status cid Delivered (calls s))) i a x); [exact HI|exact Hx|].
    cbn. eapply lc_deliver_ok; eauto.
  - (* EvPart *) destruct (nth_error (parts (nd s)) pid) as [[]|], st; exact HI.
  - (* EvPayNewPart *)
    destruct (nth_error (calls s) cid) as [[q st]|]; [|exact HI]. destruct q; try exact HI. destruct st; exact HI.
  - (* EvPayFinish *)
    destruct (nth_error (calls s) cid) as [[q st]|]; [|exact HI]. destruct q; try exact HI. destruct st; exact HI.
  - (* EvTick *)
    destruct (fire_timers (lcs (pl s)) (entry_ (pl s)) (now s + dt)) as [[l' e'] o'] eqn:Hf.
    unfold InvU in *. cbn. destruct (entry_ (pl s)) eqn:He.
    + eapply fire_timers_InvU; eauto.
    + rewrite fire_timers_none in Hf by exact HI. inversion Hf; subst. exact HI.
  - (* EvHeight *) exact HI.
  - (* EvCrash *) unfold InvU. cbn. reflexivity.
Qed.

Lemma InvU_init : InvU sys0. Proof. reflexivity. Qed.
