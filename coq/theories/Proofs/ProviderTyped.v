(* ProviderTyped.v — wait_payment / pay over Model/ProviderSys.v: an Err that is not known to be final (PErr) arises only after
   a READ RPC was answered with an error. In a history without such a fault every failure the wrapper reports is final (C16),
   and wait_payment never reports an error (C15). This is the exact boundary of the known-finding class kf_read_error. *)
From Tramp Require Import Model.Base Model.Node Model.Provider Model.ProviderSys Proofs.ProviderProofs.
From Coq Require Import ZifyBool ZifyNat ZifyN.

(* the reply is of the kind the query asks for *)
Definition typed (q : rpc) (y : reply) : Prop :=
  match q, y with
  | QListPend, YPids _ | QListDone, YPres _ | QWaitPart _, YPre _ | QWaitPart _, YPartFailed => True
  | QListPend, _ | QListDone, _ | QWaitPart _, _ => False
  | _, _ => True
  end.

Definition TInv (s : psys) : Prop :=
  forall cid cl y, nth_error (ps_calls s) cid = Some cl -> c_st cl = Replied y -> typed (c_rpc cl) y.

Lemma node_exec_typed n q n' y : node_exec n q NoFault = (n', Some y) -> typed q y.
Proof.
  destruct q; cbn; intros H; try exact I.
  - inversion H; subst; exact I.
  - inversion H; subst; exact I.
  - destruct (nth_error (parts n) pid) as [[| |]|]; inversion H; subst; exact I.
Qed.

Fixpoint hist_clean (s : psys) (evs : list pevent) : bool :=
  match evs with
  | [] => true
  | ev :: r => no_read_fault s ev && hist_clean (pstep s ev) r
  end.

Lemma TInv_set_status s cid st nd pst : TInv s -> (forall y, st <> Replied y) ->
  TInv {| ps_nd := nd; ps_calls := set_status cid st (ps_calls s); ps_st := pst |}.
Proof.
  intros HT Hst k cl y Hk Hy. cbn [ps_calls] in Hk.
  destruct (nth_set_status _ _ _ _ _ Hk) as (cl0 & H0 & Hrpc & Hother & Hsame).
  destruct (Nat.eq_dec k cid) as [->|Hne].
  - exfalso. rewrite (Hsame eq_refl) in Hy. exact (Hst y Hy).
  - rewrite (Hother Hne) in *. exact (HT k cl0 y H0 Hy).
Qed.

Lemma TInv_app nd pst cs new : (forall k cl y, nth_error cs k = Some cl -> c_st cl = Replied y -> typed (c_rpc cl) y) ->
  TInv {| ps_nd := nd; ps_calls := cs ++ mk_calls new; ps_st := pst |}.
Proof.
  intros H k cl y Hk Hy. cbn [ps_calls] in Hk.
  destruct (Nat.lt_ge_cases k (length cs)) as [Hlt|Hge].
  - rewrite nth_error_app1 in Hk by exact Hlt. exact (H k cl y Hk Hy).
  - rewrite nth_error_app2 in Hk by exact Hge. apply nth_mk_calls in Hk. destruct Hk as (q & _ & ->). cbn in Hy. discriminate.
Qed.

Lemma TInv_cancel nd pst ids cs : (forall k cl y, nth_error cs k = Some cl -> c_st cl = Replied y -> typed (c_rpc cl) y) ->
  TInv {| ps_nd := nd; ps_calls := cancel_calls ids cs; ps_st := pst |}.
Proof.
  intros H k cl y Hk Hy. cbn [ps_calls] in Hk.
  destruct (cancel_calls_spec _ _ _ _ Hk) as (cl0 & H0 & Hrpc & _ & [Hst|Hst]).
  - rewrite Hrpc. apply (H k cl0 y H0). congruence.
  - congruence.
Qed.

Lemma typed_delivered_cs s cid : TInv s ->
  forall k cl y, nth_error (set_status cid Delivered (ps_calls s)) k = Some cl -> c_st cl = Replied y -> typed (c_rpc cl) y.
Proof.
  intros HT. apply (TInv_set_status s cid Delivered (ps_nd s) (ps_st s) HT). discriminate.
Qed.

Lemma step_TInv s ev : TInv s -> no_read_fault s ev = true -> TInv (pstep s ev).
Proof.
  intros HT Hc. destruct ev as [cid f|cid|pid st|cid|cid o]; cbn [pstep].
  - (* process *)
    destruct (nth_error (ps_calls s) cid) as [[q [| | | | |]]|] eqn:Ec; try exact HT.
    destruct (node_exec (ps_nd s) q f) as [n' y] eqn:En.
    intros k cl y0 Hk Hy. cbn [ps_calls] in Hk.
    destruct (nth_set_status _ _ _ _ _ Hk) as (cl0 & H0 & Hrpc & Hother & Hsame).
    destruct (Nat.eq_dec k cid) as [->|Hne].
    + rewrite (Hsame eq_refl) in Hy. rewrite Hrpc. rewrite Ec in H0. inversion H0; subst cl0. cbn [c_rpc].
      destruct y as [r|]; [|destruct q; discriminate]. inversion Hy; subst y0.
      destruct f.
      * exact (node_exec_typed _ _ _ _ En).
      * (* Rejected: a read would be a read fault *)
        cbn [no_read_fault] in Hc. rewrite Ec in Hc. cbn [c_rpc] in Hc. destruct q; cbn in Hc; try discriminate; exact I.
      * cbn [no_read_fault] in Hc. rewrite Ec in Hc. cbn [c_rpc] in Hc. destruct q; cbn in Hc; try discriminate; exact I.
    + rewrite (Hother Hne) in *. exact (HT k cl0 y0 H0 Hy).
  - (* deliver *)
    destruct (nth_error (ps_calls s) cid) as [[q [| |y| | |]]|] eqn:Ec; try exact HT.
    unfold p_deliver. pose proof (typed_delivered_cs s cid HT) as Hcs.
    destruct (ps_st s) as [w|k|w|r].
    + destruct (wait_deliver _ w cid y) as [[w' new|r cancel]|]; [apply TInv_app, Hcs|apply TInv_cancel, Hcs|].
      intros k cl y0 Hk Hy. exact (Hcs k cl y0 Hk Hy).
    + destruct (negb (Nat.eqb k cid)); [intros k0 cl y0 Hk Hy; exact (Hcs k0 cl y0 Hk Hy)|].
      destruct (pay_reply y); [intros k0 cl y0 Hk Hy; exact (Hcs k0 cl y0 Hk Hy)|intros k0 cl y0 Hk Hy; exact (Hcs k0 cl y0 Hk Hy)|apply TInv_app, Hcs].
    + destruct (wait_deliver _ w cid y) as [[w' new|r cancel]|]; [apply TInv_app, Hcs|apply TInv_cancel, Hcs|].
      intros k cl y0 Hk Hy. exact (Hcs k cl y0 Hk Hy).
    + intros k cl y0 Hk Hy. exact (Hcs k cl y0 Hk Hy).
  - (* part *)
    destruct (nth_error (parts (ps_nd s)) pid) as [[| |]|]; destruct st; exact HT.
  - destruct (nth_error (ps_calls s) cid) as [[[] [| | | | |]]|]; exact HT.
  - (* pay finishes: a pay reply *)
    destruct (nth_error (ps_calls s) cid) as [[q st]|] eqn:Ec; [|exact HT].
    destruct q; try exact HT. destruct st; try exact HT.
    intros k cl y0 Hk Hy. cbn [ps_calls] in Hk.
    destruct (nth_set_status _ _ _ _ _ Hk) as (cl0 & H0 & Hrpc & Hother & Hsame).
    destruct (Nat.eq_dec k cid) as [->|Hne].
    + rewrite Hrpc. rewrite Ec in H0. inversion H0; subst cl0. cbn. destruct y0; exact I.
    + rewrite (Hother Hne) in *. exact (HT k cl0 y0 H0 Hy).
Qed.

Definition answers (w : waitst) (y : reply) : bool :=
  match w, y with
  | WListP _, YPids _ | WListD _ _, YPres _ | WParts _, YPre _ | WParts _, YPartFailed => true
  | _, _ => false
  end.

Lemma wait_err_not_answer base w cid y cancel :
  wait_deliver base w cid y = Some (WFin WErr cancel) -> answers w y = false.
Proof.
  intros H. destruct w as [k|k l|aw]; cbn in H.
  - destruct (negb (Nat.eqb k cid)); [discriminate|]. destruct y; inversion H; reflexivity.
  - destruct (negb (Nat.eqb k cid)); [discriminate|]. destruct y as [| | | |[|p l']| | | |]; try (inversion H; reflexivity).
    destruct l; inversion H.
  - destruct (negb (existsb _ aw)); [discriminate|]. destruct y; try (inversion H; reflexivity).
    destruct (filter _ aw); inversion H.
Qed.

(* a typed reply delivered to the wait machine is an answer to what it is waiting for *)
Lemma typed_reply_answers s w cid q y r cancel :
  wait_inv s w -> TInv s -> nth_error (ps_calls s) cid = Some {| c_rpc := q; c_st := Replied y |} ->
  wait_deliver (length (ps_calls s)) w cid y = Some (WFin r cancel) -> answers w y = true.
Proof.
  intros Hw HT Hc Hd. pose proof (HT cid _ y Hc eq_refl) as Hty. cbn [c_rpc] in Hty.
  destruct w as [k|k l|aw]; cbn in Hd, Hw.
  - destruct (Nat.eqb_spec k cid) as [->|Hne]; cbn in Hd; [|discriminate].
    destruct Hw as (st & Hk & _). rewrite Hc in Hk. inversion Hk; subst. destruct y; cbn in Hty; try contradiction; reflexivity.
  - destruct (Nat.eqb_spec k cid) as [->|Hne]; cbn in Hd; [|discriminate].
    destruct Hw as (_ & st & Hk & _). rewrite Hc in Hk. inversion Hk; subst. destruct y; cbn in Hty; try contradiction; reflexivity.
  - destruct (existsb (fun x => Nat.eqb (snd x) cid) aw) eqn:Ee; cbn in Hd; [|discriminate].
    apply existsb_exists in Ee. destruct Ee as ([pid c] & Hin & Heq). cbn in Heq. apply Nat.eqb_eq in Heq. subst c.
    destruct Hw as (_ & Hall). destruct (Hall pid cid Hin) as (st & Hk & _). rewrite Hc in Hk. inversion Hk; subst.
    destruct y; cbn in Hty; try contradiction; reflexivity.
Qed.

Lemma step_not_PErr s ev : PInv s -> TInv s -> ps_st s <> SFin PErr -> ps_st (pstep s ev) <> SFin PErr.
Proof.
  intros HP HT Hn. destruct ev as [cid f|cid|pid st|cid|cid o]; cbn [pstep].
  - destruct (nth_error (ps_calls s) cid) as [[q [| | | | |]]|]; try exact Hn.
    destruct (node_exec (ps_nd s) q f) as [n' y]. exact Hn.
  - destruct (nth_error (ps_calls s) cid) as [[q [| |y| | |]]|] eqn:Ec; try exact Hn.
    unfold p_deliver. unfold PInv in HP.
    destruct (ps_st s) as [w|k|w|r] eqn:Es.
    + destruct (wait_deliver _ w cid y) as [[w' new|r cancel]|] eqn:Ed; cbn [ps_st]; try discriminate.
      destruct r; cbn [res_of_wait]; try discriminate.
      destruct HP as (_ & Hw). pose proof (typed_reply_answers s w cid q y _ _ Hw HT Ec Ed) as Ha.
      rewrite (wait_err_not_answer _ _ _ _ _ Ed) in Ha. discriminate.
    + destruct (negb (Nat.eqb k cid)); cbn [ps_st]; [discriminate|]. destruct (pay_reply y); cbn [ps_st]; discriminate.
    + destruct (wait_deliver _ w cid y) as [[w' new|r cancel]|] eqn:Ed; cbn [ps_st]; try discriminate.
      destruct r; cbn [res_of_wait]; try discriminate.
      destruct HP as (_ & Hw). pose proof (typed_reply_answers s w cid q y _ _ Hw HT Ec Ed) as Ha.
      rewrite (wait_err_not_answer _ _ _ _ _ Ed) in Ha. discriminate.
    + cbn [ps_st]. exact Hn.
  - destruct (nth_error (parts (ps_nd s)) pid) as [[| |]|]; destruct st; exact Hn.
  - destruct (nth_error (ps_calls s) cid) as [[[] [| | | | |]]|]; exact Hn.
  - destruct (nth_error (ps_calls s) cid) as [[q st]|]; [|exact Hn]. destruct q; try exact Hn. destruct st; exact Hn.
Qed.

Lemma run_clean evs : forall s, PInv s -> TInv s -> ps_st s <> SFin PErr -> hist_ok s evs = true -> hist_clean s evs = true ->
  ps_st (prun s evs) <> SFin PErr.
Proof.
  induction evs as [|ev evs IH]; intros s HP HT Hn Hok Hcl; [exact Hn|].
  cbn [hist_ok] in Hok. apply andb_prop in Hok as [Hwf Hok]. cbn [hist_clean] in Hcl. apply andb_prop in Hcl as [Hc Hcl].
  cbn [prun fold_left]. apply (IH (pstep s ev)).
  - exact (PInv_run [ev] s HP (proj2 (andb_true_iff _ _) (conj Hwf eq_refl))).
  - exact (step_TInv s ev HT Hc).
  - exact (step_not_PErr s ev HP HT Hn).
  - exact Hok.
  - exact Hcl.
Qed.

Lemma TInv_init_calls qs nd st : TInv {| ps_nd := nd; ps_calls := mk_calls qs; ps_st := st |}.
Proof. intros k cl y Hk Hy. apply nth_mk_calls in Hk. destruct Hk as (q & _ & ->). discriminate. Qed.

(* C16 completed: in a history that respects the contract and in which no read RPC is answered with an error, the wrapper's
   result is never "Err, not known to be final" — so (with C16_pay) every failure it reports is final *)
Theorem pay_no_read_error_no_PErr parts0 b a f d rt evs :
  hist_ok (pay_init parts0 (QPay b a f d rt)) evs = true -> hist_clean (pay_init parts0 (QPay b a f d rt)) evs = true ->
  ps_st (prun (pay_init parts0 (QPay b a f d rt)) evs) <> SFin PErr.
Proof.
  intros Hok Hcl. apply run_clean; [apply PInv_pay_init|apply TInv_init_calls|discriminate|exact Hok|exact Hcl].
Qed.

(* the same for wait_payment alone: it reports an error only after a read RPC failed *)
Theorem wait_no_read_error_no_PErr parts0 evs :
  hist_ok (wait_init parts0) evs = true -> hist_clean (wait_init parts0) evs = true ->
  ps_st (prun (wait_init parts0) evs) <> SFin PErr.
Proof.
  intros Hok Hcl. apply run_clean; [apply PInv_wait_init|apply TInv_init_calls|discriminate|exact Hok|exact Hcl].
Qed.
