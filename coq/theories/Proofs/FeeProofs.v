(* FeeProofs.v — lemmas about Model/Fee.v (C12, first two clauses). *)
From Tramp Require Import Model.Base Model.Fee Proofs.TlvProofs.
From Coq Require Import ZifyBool ZifyNat ZifyN.
Ltac Zify.zify_post_hook ::= Z.div_mod_to_equations.

(* the exact predicate of the property, in unbounded N *)
Definition fee_exact (p : policy) (total amount : N) : bool :=
  amount + fee_base p + amount * fee_ppm p / 1000000 <=? total.

(* known-finding class KF-D: the 64-bit product amount * ppm overflows *)
Definition kf_mul_overflow (p : policy) (amount : N) : bool := u64max <? amount * fee_ppm p.

Lemma fee_sufficient_exact p total amount :
  total <= u64max -> kf_mul_overflow p amount = false ->
  fee_sufficient p total amount = fee_exact p total amount.
Proof.
  unfold fee_sufficient, fee_exact, kf_mul_overflow, u64max. intros Ht Hk.
  set (r := amount * fee_ppm p) in *.
  destruct (total <? amount) eqn:E1; [lia|].
  rewrite Hk.
  destruct (_ <? fee_base p + r / 1000000) eqn:E2; [lia|].
  destruct (_ <? amount + (fee_base p + r / 1000000)) eqn:E3; lia.
Qed.

(* inside the class the code always answers "insufficient" (the safe side) *)
Lemma fee_sufficient_in_class p total amount :
  kf_mul_overflow p amount = true -> fee_sufficient p total amount = false.
Proof.
  unfold fee_sufficient, kf_mul_overflow. intros Hk.
  destruct (total <? amount); [reflexivity|]. rewrite Hk. reflexivity.
Qed.

Lemma fee_sufficient_class_witness :
  let p := {| fee_base := 0; fee_ppm := 2; pol_delta := 144 |} in
  kf_mul_overflow p 9223372036854775808 = true /\
  fee_sufficient p u64max 9223372036854775808 = false /\
  fee_exact p u64max 9223372036854775808 = true.
Proof. vm_compute. auto. Qed.

(* the repaired code is the [fixed] instance of the general model, in both build modes *)
Lemma fee_sufficient_gen_fixed m p total amount :
  fee_sufficient_gen true m p total amount = Ok (fee_sufficient p total amount).
Proof.
  unfold fee_sufficient_gen, fee_sufficient.
  destruct (total <? amount); [reflexivity|].
  destruct (u64max <? amount * fee_ppm p); [reflexivity|].
  destruct (u64max <? fee_base p + amount * fee_ppm p / 1000000); [reflexivity|].
  destruct (u64max <? amount + (fee_base p + amount * fee_ppm p / 1000000)); reflexivity.
Qed.

(* the pinned tree (D3) *)
Lemma fee_pinned_panics :
  fee_sufficient_gen false Checked {| fee_base := 1; fee_ppm := 0; pol_delta := 144 |} u64max u64max = Panic.
Proof. vm_compute. reflexivity. Qed.
Lemma fee_pinned_wraps :
  fee_sufficient_gen false Wrapping {| fee_base := 1; fee_ppm := 0; pol_delta := 144 |} u64max u64max = Ok true.
Proof. vm_compute. reflexivity. Qed.

(* monotone in the first argument: more received never un-satisfies the test (used by C03) *)
Lemma fee_sufficient_mono p t1 t2 amount :
  t1 <= t2 -> fee_sufficient p t1 amount = true -> fee_sufficient p t2 amount = true.
Proof.
  unfold fee_sufficient. intros Hle.
  destruct (t1 <? amount) eqn:E1; [discriminate|].
  destruct (t2 <? amount) eqn:E1'; [lia|].
  destruct (u64max <? amount * fee_ppm p); [discriminate|].
  destruct (u64max <? fee_base p + _); [discriminate|].
  destruct (u64max <? amount + _); [discriminate|]. lia.
Qed.

(* what a positive answer guarantees, in unbounded arithmetic (used by C03) *)
Lemma fee_sufficient_true p total amount :
  fee_sufficient p total amount = true ->
  amount + fee_base p + amount * fee_ppm p / 1000000 <= total.
Proof.
  unfold fee_sufficient.
  destruct (total <? amount); [discriminate|].
  destruct (u64max <? amount * fee_ppm p); [discriminate|].
  destruct (u64max <? fee_base p + _); [discriminate|].
  destruct (u64max <? amount + _); [discriminate|]. lia.
Qed.

(* ---------- failure encoding ---------- *)

Lemma encode_fee_failure_shape p :
  encode_failure (TrampolineFeeOrExpiryInsufficient p) =
  [32; 26] ++ be_enc 4 (fee_base p) ++ be_enc 4 (fee_ppm p) ++ be_enc 2 (pol_delta p).
Proof. reflexivity. Qed.

Lemma decode_encode_fee_failure p : policy_ok p ->
  decode_fee_failure (encode_failure (TrampolineFeeOrExpiryInsufficient p)) = Some p.
Proof.
  intros (Hb & Hp & Hd). unfold u32max, u16max in *.
  pose proof (be_val_enc_small 4 (fee_base p)) as E1.
  pose proof (be_val_enc_small 4 (fee_ppm p)) as E2.
  pose proof (be_val_enc_small 2 (pol_delta p)) as E3.
  cbn [encode_failure be_enc app] in *. cbn [decode_fee_failure].
  rewrite E1, E2, E3 by (cbn; lia). destruct p; reflexivity.
Qed.

Lemma encode_failure_bytes_ok r : (match r with TrampolineFeeOrExpiryInsufficient p => True | _ => True end) ->
  bytes_ok (encode_failure r).
Proof.
  intros _. destruct r as [| |p]; cbn [encode_failure].
  - repeat constructor.
  - repeat constructor.
  - apply Forall_app; split; [repeat constructor|].
    apply Forall_app; split; [apply be_enc_bytes_ok|].
    apply Forall_app; split; apply be_enc_bytes_ok.
Qed.
