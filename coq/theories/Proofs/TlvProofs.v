(* TlvProofs.v — lemmas about Model/Tlv.v (C18, and the codec half of C13). *)
From Tramp Require Import Model.Base Model.Tlv.
From Coq Require Import ZifyBool ZifyNat ZifyN.
Ltac Zify.zify_post_hook ::= Z.div_mod_to_equations.
Arguments N.add : simpl never.
Arguments N.mul : simpl never.
Arguments N.div : simpl never.
Arguments N.modulo : simpl never.
Arguments N.eqb : simpl never.
Arguments N.ltb : simpl never.
Arguments N.leb : simpl never.
Arguments N.of_nat : simpl never.
Arguments N.to_nat : simpl never.
Arguments N.pow : simpl never.

(* ---------- big-endian integers ---------- *)

Lemma be_val_acc_app acc a b : be_val_acc acc (a ++ b) = be_val_acc (be_val_acc acc a) b.
Proof. revert acc; induction a as [|x a IH]; intros acc; cbn [be_val_acc app]; [reflexivity|apply IH]. Qed.

Lemma be_val_snoc bs b : be_val (bs ++ [b]) = be_val bs * 256 + b.
Proof. unfold be_val. rewrite be_val_acc_app. reflexivity. Qed.

Lemma be_enc_length n v : length (be_enc n v) = n.
Proof. revert v; induction n as [|n IH]; intros v; cbn [be_enc]; [reflexivity|].
  rewrite app_length, IH. cbn. lia. Qed.

Lemma be_enc_bytes_ok n v : bytes_ok (be_enc n v).
Proof. revert v; induction n as [|n IH]; intros v; cbn [be_enc]; [constructor|].
  apply Forall_app; split; [apply IH|]. constructor; [|constructor]. unfold byte_ok.
  apply N.mod_lt. lia. Qed.

Lemma be_val_enc n v : be_val (be_enc n v) = v mod 256 ^ N.of_nat n.
Proof.
  revert v; induction n as [|n IH]; intros v; cbn [be_enc].
  - unfold be_val; cbn [be_val_acc]. change (N.of_nat 0) with 0. rewrite N.pow_0_r, N.mod_1_r. reflexivity.
  - rewrite be_val_snoc, IH.
    replace (N.of_nat (S n)) with (N.succ (N.of_nat n)) by lia.
    rewrite N.pow_succ_r by lia.
    rewrite N.mod_mul_r by (try apply N.pow_nonzero; lia). ring.
Qed.

Lemma be_val_enc_small n v : v < 256 ^ N.of_nat n -> be_val (be_enc n v) = v.
Proof. intros H. rewrite be_val_enc. apply N.mod_small; exact H. Qed.

Lemma be_val_bound bs : bytes_ok bs -> be_val bs < 256 ^ len bs.
Proof.
  induction bs as [|b bs IH] using rev_ind; intros Hok.
  - unfold be_val, len; cbn. lia.
  - apply Forall_app in Hok as [Hbs Hb]. inversion Hb as [|? ? Hb' _]; subst. unfold byte_ok in Hb'.
    rewrite be_val_snoc. unfold len in *. rewrite app_length. cbn [length].
    replace (N.of_nat (length bs + 1)) with (N.succ (N.of_nat (length bs))) by lia.
    rewrite N.pow_succ_r by lia. specialize (IH Hbs). nia.
Qed.

Lemma be_enc_val bs : bytes_ok bs -> be_enc (length bs) (be_val bs) = bs.
Proof.
  induction bs as [|b bs IH] using rev_ind; intros Hok; [reflexivity|].
  apply Forall_app in Hok as [Hbs Hb]. inversion Hb as [|? ? Hb' _]; subst. unfold byte_ok in Hb'.
  rewrite app_length. cbn [length]. replace (length bs + 1)%nat with (S (length bs)) by lia.
  cbn [be_enc]. rewrite be_val_snoc.
  replace ((be_val bs * 256 + b) / 256) with (be_val bs) by lia.
  replace ((be_val bs * 256 + b) mod 256) with b by lia.
  rewrite IH by assumption. reflexivity.
Qed.

Ltac be_bound Hok Hb :=
  pose proof (be_val_bound _ Hok) as Hb;
  match type of Hb with _ < ?p => let v := eval vm_compute in p in change p with v in Hb end.

(* ---------- BigSize, as BOLT #1 defines it (minimal encodings only) ---------- *)

Inductive bigsize : N -> list N -> Prop :=
| bigsize1 v : v < 253 -> bigsize v [v]
| bigsize3 b1 b2 : bytes_ok [b1; b2] -> 253 <= be_val [b1; b2] ->
    bigsize (be_val [b1; b2]) [253; b1; b2]
| bigsize5 b1 b2 b3 b4 : bytes_ok [b1; b2; b3; b4] -> 65536 <= be_val [b1; b2; b3; b4] ->
    bigsize (be_val [b1; b2; b3; b4]) [254; b1; b2; b3; b4]
| bigsize9 b1 b2 b3 b4 b5 b6 b7 b8 : bytes_ok [b1; b2; b3; b4; b5; b6; b7; b8] ->
    4294967296 <= be_val [b1; b2; b3; b4; b5; b6; b7; b8] ->
    bigsize (be_val [b1; b2; b3; b4; b5; b6; b7; b8]) [255; b1; b2; b3; b4; b5; b6; b7; b8].

Lemma bigsize_get chk v bs r : bigsize v bs -> get_compact_size chk (bs ++ r) = Ok (v, r).
Proof.
  intros H; destruct H as [v Hv| | |]; cbn [app get_compact_size].
  - destruct (v =? 253) eqn:E1; [lia|]. destruct (v =? 254) eqn:E2; [lia|].
    destruct (v =? 255) eqn:E3; [lia|]. reflexivity.
  - reflexivity.
  - reflexivity.
  - reflexivity.
Qed.

Lemma bigsize_bound v bs : bigsize v bs -> v < two64.
Proof.
  intros H; destruct H as [v Hv|b1 b2 Hok _|b1 b2 b3 b4 Hok _|b1 b2 b3 b4 b5 b6 b7 b8 Hok _].
  - unfold two64; lia.
  - be_bound Hok Hb. unfold two64. lia.
  - be_bound Hok Hb. unfold two64. lia.
  - be_bound Hok Hb. unfold two64. lia.
Qed.

Lemma bigsize_put v bs : bigsize v bs -> put_compact_size v = bs.
Proof.
  intros H; destruct H as [v Hv|b1 b2 Hok Hlo|b1 b2 b3 b4 Hok Hlo|b1 b2 b3 b4 b5 b6 b7 b8 Hok Hlo];
    unfold put_compact_size.
  - destruct (v <=? 252) eqn:E; [reflexivity|lia].
  - be_bound Hok Hb.
    destruct (_ <=? 252) eqn:E1; [lia|]. destruct (_ <=? 65535) eqn:E2; [|lia].
    f_equal. exact (be_enc_val [b1; b2] Hok).
  - be_bound Hok Hb.
    destruct (_ <=? 252) eqn:E1; [lia|]. destruct (_ <=? 65535) eqn:E2; [lia|].
    destruct (_ <=? 4294967295) eqn:E3; [|lia].
    f_equal. exact (be_enc_val [b1; b2; b3; b4] Hok).
  - be_bound Hok Hb.
    destruct (_ <=? 252) eqn:E1; [lia|]. destruct (_ <=? 65535) eqn:E2; [lia|].
    destruct (_ <=? 4294967295) eqn:E3; [lia|].
    f_equal. exact (be_enc_val [b1; b2; b3; b4; b5; b6; b7; b8] Hok).
Qed.

(* every u64 has a BigSize encoding and the encoder produces it *)
Lemma put_is_bigsize v : v < two64 -> bigsize v (put_compact_size v).
Proof.
  intros Hv. unfold put_compact_size.
  destruct (v <=? 252) eqn:E1; [constructor; lia|].
  destruct (v <=? 65535) eqn:E2.
  - assert (Hval : be_val (be_enc 2 v) = v) by (apply be_val_enc_small; cbn; lia).
    pose proof (be_enc_bytes_ok 2 v) as Hok.
    cbn [be_enc app] in *. rewrite <- Hval at 1. apply bigsize3; [exact Hok|lia].
  - destruct (v <=? 4294967295) eqn:E3.
    + assert (Hval : be_val (be_enc 4 v) = v) by (apply be_val_enc_small; cbn; lia).
      pose proof (be_enc_bytes_ok 4 v) as Hok.
      cbn [be_enc app] in *. rewrite <- Hval at 1. apply bigsize5; [exact Hok|lia].
    + assert (Hval : be_val (be_enc 8 v) = v) by (apply be_val_enc_small; unfold two64 in Hv; cbn; lia).
      pose proof (be_enc_bytes_ok 8 v) as Hok.
      cbn [be_enc app] in *. rewrite <- Hval at 1. apply bigsize9; [exact Hok|lia].
Qed.

Lemma bigsize_length v bs : bigsize v bs -> (1 <= length bs)%nat.
Proof. intros H; destruct H; cbn; lia. Qed.

(* ---------- totality (C18, first clause) ---------- *)

Lemma get_compact_size_no_panic bs : get_compact_size true bs <> Panic.
Proof.
  destruct bs as [|b r]; cbn [get_compact_size short]; [discriminate|].
  destruct (b =? 253); [destruct r as [|? [|? ?]]; discriminate|].
  destruct (b =? 254); [destruct r as [|? [|? [|? [|? ?]]]]; discriminate|].
  destruct (b =? 255); [destruct r as [|? [|? [|? [|? [|? [|? [|? [|? ?]]]]]]]]; discriminate|].
  discriminate.
Qed.

Lemma get_compact_size_shrinks chk bs v r :
  get_compact_size chk bs = Ok (v, r) -> (length r < length bs)%nat.
Proof.
  destruct bs as [|b t]; cbn [get_compact_size]; [destruct chk; discriminate|].
  destruct (b =? 253).
  { destruct t as [|? [|? ?]]; try (destruct chk; discriminate). intros H; inversion H; subst; cbn; lia. }
  destruct (b =? 254).
  { destruct t as [|? [|? [|? [|? ?]]]]; try (destruct chk; discriminate). intros H; inversion H; subst; cbn; lia. }
  destruct (b =? 255).
  { destruct t as [|? [|? [|? [|? [|? [|? [|? [|? ?]]]]]]]]; try (destruct chk; discriminate).
    intros H; inversion H; subst; cbn; lia. }
  intros H; inversion H; subst; cbn; lia.
Qed.

Lemma from_bytes_fuel_no_panic fuel : forall bs acc,
  (length bs < fuel)%nat -> from_bytes_fuel true fuel bs acc <> Panic.
Proof.
  induction fuel as [|f IH]; intros bs acc Hlen; [lia|].
  cbn [from_bytes_fuel].
  destruct bs as [|b0 [|b1 t]]; [discriminate|discriminate|].
  destruct (get_compact_size true (b0 :: b1 :: t)) as [[ty r1]| |] eqn:E1;
    [|discriminate|exfalso; exact (get_compact_size_no_panic _ E1)].
  destruct (get_compact_size true r1) as [[l r2]| |] eqn:E2;
    [|discriminate|exfalso; exact (get_compact_size_no_panic _ E2)].
  destruct (len r2 <? l); [discriminate|].
  apply IH.
  apply get_compact_size_shrinks in E1. apply get_compact_size_shrinks in E2.
  rewrite skipn_length. cbn [length] in *. lia.
Qed.

Lemma from_bytes_no_panic bs : from_bytes true bs <> Panic.
Proof. unfold from_bytes. apply from_bytes_fuel_no_panic. lia. Qed.

Lemma try_from_no_panic bs : try_from true bs <> Panic.
Proof.
  unfold try_from. destruct bs as [|b t]; [discriminate|].
  destruct (get_compact_size true (b :: t)) as [[l r]| |] eqn:E;
    [apply from_bytes_no_panic|discriminate|exfalso; exact (get_compact_size_no_panic _ E)].
Qed.

Lemma get_tu64_no_panic bs : get_tu64 bs <> Panic.
Proof. unfold get_tu64. destruct (8 <? len bs); discriminate. Qed.

(* ---------- valid streams (BOLT #1 grammar without the ordering demand) ---------- *)

Inductive valid_stream : list N -> Prop :=
| vs_nil : valid_stream []
| vs_rec t tb l lb v rest :
    bigsize t tb -> bigsize l lb -> len v = l -> bytes_ok v -> valid_stream rest ->
    valid_stream (tb ++ lb ++ v ++ rest).

Definition wf_entry (e : tlv_entry) : Prop :=
  typ e < two64 /\ len (value e) < two64 /\ bytes_ok (value e).

Lemma firstn_app_exact {A} (a b : list A) : firstn (length a) (a ++ b) = a.
Proof. rewrite firstn_app, Nat.sub_diag, firstn_all. cbn. apply app_nil_r. Qed.
Lemma skipn_app_exact {A} (a b : list A) : skipn (length a) (a ++ b) = b.
Proof. rewrite skipn_app, Nat.sub_diag, skipn_all. reflexivity. Qed.

(* one loop iteration on a record followed by anything *)
Lemma from_bytes_fuel_record chk f t tb l lb v rest acc :
  bigsize t tb -> bigsize l lb -> len v = l ->
  from_bytes_fuel chk (S f) (tb ++ lb ++ v ++ rest) acc =
  from_bytes_fuel chk f rest ({| typ := t; value := v |} :: acc).
Proof.
  intros Ht Hl Hlen.
  assert (Hshape : exists b0 b1 tl, tb ++ lb ++ v ++ rest = b0 :: b1 :: tl).
  { pose proof (bigsize_length _ _ Ht). pose proof (bigsize_length _ _ Hl).
    destruct tb as [|x tb]; [cbn in *; lia|]. destruct tb as [|y tb].
    - destruct lb as [|z lb]; [cbn in *; lia|]. cbn. eauto.
    - cbn. eauto. }
  destruct Hshape as (b0 & b1 & tl & Hs).
  cbn [from_bytes_fuel]. rewrite Hs. rewrite <- Hs.
  rewrite (bigsize_get chk _ _ _ Ht). rewrite (bigsize_get chk _ _ _ Hl).
  unfold len in *. rewrite app_length.
  destruct (N.of_nat (length v + length rest) <? l) eqn:E; [lia|].
  replace (N.to_nat l) with (length v) by lia.
  rewrite firstn_app_exact, skipn_app_exact. reflexivity.
Qed.

Lemma valid_stream_length_fuel bs : valid_stream bs -> forall chk fuel acc,
  (length bs < fuel)%nat ->
  exists es, from_bytes_fuel chk fuel bs acc = Ok (rev acc ++ es) /\ to_bytes es = bs /\ Forall wf_entry es.
Proof.
  induction 1 as [|t tb l lb v rest Ht Hl Hlen Hok Hrest IH]; intros chk fuel acc Hfuel.
  - destruct fuel as [|f]; [lia|]. exists []. cbn. rewrite app_nil_r. auto.
  - destruct fuel as [|f]; [lia|].
    rewrite (from_bytes_fuel_record chk f t tb l lb v rest acc Ht Hl Hlen).
    pose proof (bigsize_length _ _ Ht).
    destruct (IH chk f ({| typ := t; value := v |} :: acc)) as (es & Hes & Hto & Hwf).
    { rewrite !app_length in Hfuel. lia. }
    exists ({| typ := t; value := v |} :: es). split; [|split].
    + rewrite Hes. cbn [rev]. rewrite <- app_assoc. reflexivity.
    + unfold to_bytes in *. cbn [flat_map]. unfold entry_bytes at 1. cbn [typ value].
      rewrite (bigsize_put _ _ Ht). rewrite Hlen, (bigsize_put _ _ Hl), Hto.
      rewrite <- !app_assoc. reflexivity.
    + constructor; [|exact Hwf]. unfold wf_entry; cbn [typ value].
      split; [exact (bigsize_bound _ _ Ht)|]. split; [rewrite Hlen; exact (bigsize_bound _ _ Hl)|exact Hok].
Qed.

Lemma decode_encode chk bs : valid_stream bs ->
  exists es, from_bytes chk bs = Ok es /\ to_bytes es = bs /\ Forall wf_entry es.
Proof.
  intros Hv. unfold from_bytes.
  destruct (valid_stream_length_fuel bs Hv chk (S (length bs)) []) as (es & H1 & H2 & H3); [lia|].
  exists es. cbn in H1. auto.
Qed.

Lemma to_bytes_valid es : Forall wf_entry es -> valid_stream (to_bytes es).
Proof.
  induction 1 as [|e es (Ht & Hl & Hok) _ IH]; [constructor|].
  unfold to_bytes; cbn [flat_map]. unfold entry_bytes at 1. rewrite <- !app_assoc.
  apply vs_rec with (t := typ e) (l := len (value e)); auto using put_is_bigsize.
Qed.

Lemma encode_decode chk es : Forall wf_entry es -> from_bytes chk (to_bytes es) = Ok es.
Proof.
  intros Hwf. unfold from_bytes.
  assert (G : forall fuel acc, (length (to_bytes es) < fuel)%nat ->
               from_bytes_fuel chk fuel (to_bytes es) acc = Ok (rev acc ++ es)).
  { induction Hwf as [|e es (Ht & Hl & Hok) _ IH]; intros fuel acc Hfuel.
    - destruct fuel; [lia|]. cbn. rewrite app_nil_r. reflexivity.
    - destruct fuel as [|f]; [lia|].
      unfold to_bytes in *; cbn [flat_map] in *.
      assert (Hge : (1 <= length (entry_bytes e))%nat).
      { unfold entry_bytes. rewrite app_length.
        pose proof (bigsize_length _ _ (put_is_bigsize _ Ht)). lia. }
      rewrite app_length in Hfuel.
      unfold entry_bytes at 1. rewrite <- !app_assoc.
      rewrite (from_bytes_fuel_record chk f (typ e) _ (len (value e)) _ (value e));
        auto using put_is_bigsize.
      rewrite IH.
      + cbn [rev]. rewrite <- app_assoc. destruct e; reflexivity.
      + lia. }
  rewrite G by lia. reflexivity.
Qed.

(* ---------- remove strips exactly the first record of the type ---------- *)

Lemma tlv_remove_spec t es :
  (forall e, In e es -> typ e <> t) /\ tlv_remove t es = es
  \/ exists es1 e es2, es = es1 ++ e :: es2 /\ typ e = t /\ (forall x, In x es1 -> typ x <> t)
                       /\ tlv_remove t es = es1 ++ es2.
Proof.
  induction es as [|e es IH]; [left; split; [intros ? []|reflexivity]|].
  cbn [tlv_remove]. destruct (typ e =? t) eqn:E.
  - right. exists [], e, es. cbn. repeat split; [lia|intros ? []].
  - destruct IH as [[Hn Hr]|(es1 & x & es2 & -> & Ht & Hn & Hr)].
    + left. split; [intros y [<-|Hy]; [lia|auto]|rewrite Hr; reflexivity].
    + right. exists (e :: es1), x, es2. cbn. rewrite Hr. repeat split; auto.
      intros y [<-|Hy]; [lia|auto].
Qed.

Lemma to_bytes_app a b : to_bytes (a ++ b) = to_bytes a ++ to_bytes b.
Proof. unfold to_bytes. apply flat_map_app. Qed.

(* get_tu64 *)
Lemma get_tu64_small bs : len bs <= 8 -> get_tu64 bs = Ok (be_val bs).
Proof. intros H. unfold get_tu64. destruct (8 <? len bs) eqn:E; [lia|reflexivity]. Qed.
Lemma get_tu64_large bs : 8 < len bs -> get_tu64 bs = Err.
Proof. intros H. unfold get_tu64. destruct (8 <? len bs) eqn:E; [reflexivity|lia]. Qed.
