(* SysRecover.v — C09: recovery from any durable image by a cooperative environment (symbolic runs of the model). *)
From Tramp Require Import Model.Base Model.Fee Model.Classify Model.Node Model.Provider Model.ProviderSys Model.Sys.
From Tramp Require Import Proofs.FeeProofs Proofs.SysBasics Proofs.EntryProofs Proofs.SysEntry Proofs.SysShape Proofs.SysTheorems
  Proofs.SysTimers Proofs.SysReach Proofs.SysCalls Proofs.SysNode Proofs.SysSafety.
From Coq Require Import ZifyBool ZifyNat ZifyN.

(* a fully funded HTLC that passes every gate on its own *)
Definition funded (c : cfg) (h : htlc) : Prop :=
  (rel h <? Z.of_N (pol_delta (pol c)))%Z = false /\
  fee_sufficient (pol c) (total h) (deliver h) = true /\
  fee_sufficient (pol c) (N.min u64max (0 + amt h)) (deliver h) = true.

Lemma bytes_eq_refl l : bytes_eq l l = true.
Proof. induction l as [|x r IH]; cbn; [reflexivity|]. rewrite N.eqb_refl, IH. reflexivity. Qed.

Lemma funded_entry c h : funded c h ->
  e_handle c (new_entry h) h =
  {| e_blob := blob h; e_deliver := deliver h; e_inv_amount := inv_amount h; listeners := [h];
     is_ready := true; is_fail := false; recv := N.min u64max (0 + amt h); minexp := N.min (expiry h) u32max; rdy_q := true; fail_q := None |}.
Proof.
  intros (H1 & H2 & H3). unfold e_handle, new_entry. cbn [blob e_blob deliver e_deliver]. rewrite bytes_eq_refl, N.eqb_refl. cbn [andb].
  rewrite H1, H2. unfold e_add. cbn. rewrite H3. reflexivity.
Qed.

Definition pay_schedule (h : htlc) (np : nat) (p : list N) : list event :=
  [EvHtlc h; EvProcess 0 NoFault; EvDeliver 0 true; EvProcess 1 NoFault; EvDeliver 1 true; EvProcess 2 NoFault; EvDeliver 2 true;
   EvProcess 3 NoFault; EvPayNewPart 3; EvPart np (PDone p); EvPayFinish 3 (PayComplete p); EvDeliver 3 true].

Ltac sym := cbn [run step fst snd pl entry_ lcs calls nth_error c_st c_rpc mk_calls map app length node_exec set_status upd nd now height next_att
  find_owner lc_deliver l_pc l_info Nat.eqb negb enter_select select_poll go_pay apply_adv with_calls cancel_calls fold_left
  a_pc a_entry a_new a_out a_cancel a_att set_pc number_calls do_resolve rdy_q fail_q set_queues sys_start find_select
  li_blob li_deliver li_inv_amount recv minexp set_ds set_atts set_parts set_payrun ds atts parts payrun resolve_outs listeners hid
  wait_start wait_deliver start_wait succeed pay_failed pay_reply wait_some wait_none wait_err stay panicked existsb filter number_from
  resps is_resp e_blob e_deliver e_inv_amount is_ready is_fail option_map with_nd].

Lemma nth_app_len {A} (l : list A) x : nth_error (l ++ [x]) (length l) = Some x.
Proof. rewrite nth_error_app2 by lia. rewrite Nat.sub_diag. reflexivity. Qed.

Arguments node_exec : simpl nomatch.
Arguments apply_adv : simpl nomatch.
Arguments select_poll : simpl nomatch.
Arguments lc_deliver : simpl nomatch.
Arguments find_owner : simpl nomatch.

(* one event at a time *)
Lemma in_run_later c s ev r s1 o X :
  step c s ev = (s1, o) -> In X (map resps (snd (run c s1 r))) -> In X (map resps (snd (run c s (ev :: r)))).
Proof. intros E H. cbn [run]. rewrite E. destruct (run c s1 r) as [s2 os]. cbn [snd map] in *. right. exact H. Qed.
Lemma in_run_now c s ev r s1 o X :
  step c s ev = (s1, o) -> resps o = X -> In X (map resps (snd (run c s (ev :: r)))).
Proof. intros E H. cbn [run]. rewrite E. destruct (run c s1 r) as [s2 os]. cbn [snd map]. left. exact H. Qed.
Lemma run_fst_step c s ev r s1 o : step c s ev = (s1, o) -> fst (run c s (ev :: r)) = fst (run c s1 r).
Proof. intros E. cbn [run]. rewrite E. destruct (run c s1 r) as [s2 os]. reflexivity. Qed.

Ltac sym1 := cbn [step fst snd pl entry_ lcs calls nth_error c_st c_rpc mk_calls map app length node_exec set_status upd nd now height next_att
  find_owner lc_deliver l_pc l_info Nat.eqb negb enter_select select_poll go_pay apply_adv with_calls cancel_calls fold_left
  a_pc a_entry a_new a_out a_cancel a_att set_pc number_calls do_resolve rdy_q fail_q set_queues sys_start find_select
  li_blob li_deliver li_inv_amount recv minexp set_ds set_atts set_parts set_payrun ds atts parts payrun resolve_outs listeners hid
  wait_start wait_deliver start_wait succeed pay_failed pay_reply wait_some wait_none wait_err stay panicked existsb filter number_from
  resps is_resp e_blob e_deliver e_inv_amount is_ready is_fail option_map with_nd].

(* compute [step c s ev] for a concrete-shaped state; [tac] rewrites the facts about the symbolic parts *)
Ltac stepc tac := repeat first [progress sym1 | progress (unfold enter_select) | progress (unfold node_exec) | tac | rewrite nth_app_len | rewrite N.eqb_refl]; reflexivity.
Ltac later tac := eapply in_run_later; [stepc tac|].
Ltac now_ tac := eapply in_run_now; [stepc tac|sym1; reflexivity].

Theorem recover_free c n t0 h0 a0 h p :
  funded c h -> mpp_ms c <> 0 -> free_view (ds n) -> mem_att a0 (atts n) = false ->
  In [OResp (hid h) (Resolve p)] (map resps (snd (run c (sys_start n t0 h0 a0) (pay_schedule h (length (parts n)) p)))).
Proof.
  intros Hf Hm Hfree Hfresh.
  assert (Hm' : (mpp_ms c =? 0) = false) by (apply N.eqb_neq; exact Hm).
  unfold pay_schedule.
  destruct n as [dsn attsn partsn payrunn]. cbn [ds atts parts] in *.
  destruct dsn as [[[| | |] g]|]; cbn in Hfree; try contradiction;
    (eapply in_run_later; [cbn [step sys_start pl entry_ lcs calls length find_select app l_pc nd now height next_att]; rewrite (funded_entry c h Hf); reflexivity|]);
    do 10 (later ltac:(first [rewrite Hm' | rewrite Hfresh])); now_ ltac:(fail).
Qed.

Ltac first_htlc Hf := eapply in_run_later; [cbn [step sys_start pl entry_ lcs calls length find_select app l_pc nd now height next_att]; rewrite (funded_entry _ _ Hf); reflexivity|].

(* the recorded preimage settles the set at once *)
Theorem recover_succ c n t0 h0 a0 h pr g :
  funded c h -> ds n = Some (DSucc pr, g) ->
  In [OResp (hid h) (Resolve pr)] (map resps (snd (run c (sys_start n t0 h0 a0) [EvHtlc h; EvProcess 0 NoFault; EvDeliver 0 true]))).
Proof.
  intros Hf Hd. destruct n as [dsn attsn partsn payrunn]. cbn [ds] in Hd. subst dsn.
  first_htlc Hf. later ltac:(fail). now_ ltac:(fail).
Qed.

(* an interrupted attempt that has completed: settled with its preimage, nothing is paid *)
Theorem recover_done c n t0 h0 a0 h a t g pr rest :
  funded c h -> ds n = Some (DPending a t, g) -> pend_ids 0 (parts n) = [] -> done_pres (parts n) = pr :: rest ->
  In [OResp (hid h) (Resolve pr)]
     (map resps (snd (run c (sys_start n t0 h0 a0) [EvHtlc h; EvProcess 0 NoFault; EvDeliver 0 true; EvProcess 1 NoFault; EvDeliver 1 true; EvProcess 2 NoFault; EvDeliver 2 true]))).
Proof.
  intros Hf Hd Hpe Hdo. destruct n as [dsn attsn partsn payrunn]. cbn [ds parts] in *. subst dsn.
  first_htlc Hf. do 5 (later ltac:(first [rewrite Hpe | rewrite Hdo])). now_ ltac:(first [rewrite Hpe | rewrite Hdo]).
Qed.

Lemma mem_att_set_att_other a b v l : a <> b -> mem_att a (set_att b v l) = mem_att a l.
Proof.
  intros Hne. unfold mem_att. induction l as [|x r IH]; cbn.
  - assert ((b =? a) = false) by (apply N.eqb_neq; congruence). rewrite H. reflexivity.
  - destruct (fst x =? b) eqn:E; cbn.
    + apply N.eqb_eq in E. assert ((b =? a) = false) by (apply N.eqb_neq; congruence). rewrite H.
      assert ((fst x =? a) = false) by (apply N.eqb_neq; congruence). rewrite H0. reflexivity.
    + rewrite IH. reflexivity.
Qed.

Definition recover_schedule (h : htlc) : list event :=
  [EvHtlc h; EvProcess 0 NoFault; EvDeliver 0 true; EvProcess 1 NoFault; EvDeliver 1 true; EvProcess 2 NoFault; EvDeliver 2 true;
   EvProcess 3 NoFault; EvDeliver 3 true; EvProcess 4 NoFault; EvDeliver 4 true].
Definition pay_schedule_from (k : nat) (np : nat) (p : list N) : list event :=
  [EvProcess k NoFault; EvDeliver k true; EvProcess (S k) NoFault; EvDeliver (S k) true;
   EvProcess (S (S k)) NoFault; EvPayNewPart (S (S k)); EvPart np (PDone p); EvPayFinish (S (S k)) (PayComplete p); EvDeliver (S (S k)) true].

(* an interrupted attempt all of whose parts failed (the D4 image included: the attempt record may be missing): marked failed,
   then — within the remaining MPP time — a new attempt is paid and the set is settled *)
Theorem recover_pending c n t0 h0 a0 h a t g p :
  funded c h -> ds n = Some (DPending a t, g) -> pend_ids 0 (parts n) = [] -> done_pres (parts n) = [] ->
  (mpp_ms c - (t0 - t) =? 0) = false -> a0 <> a -> mem_att a0 (atts n) = false ->
  In [OResp (hid h) (Resolve p)]
     (map resps (snd (run c (sys_start n t0 h0 a0) (recover_schedule h ++ pay_schedule_from 5 (length (parts n)) p)))).
Proof.
  intros Hf Hd Hpe Hdo Hage Hne Hfresh. unfold recover_schedule, pay_schedule_from. cbn [app].
  destruct n as [dsn attsn partsn payrunn]. cbn [ds parts atts] in *. subst dsn.
  first_htlc Hf.
  (* call 3 is mark_failed's attempt write: create-or-replace succeeds whether or not the attempt record exists (D4) *)
  do 18 (later ltac:(first [rewrite Hpe | rewrite Hdo | rewrite Hage | rewrite (mem_att_set_att_other a0 a _ _ Hne) | rewrite Hfresh | match goal with |- context [mem_att a attsn] => destruct (mem_att a attsn) end])).
  now_ ltac:(fail).
Qed.

(* the same image when the interrupted attempt is older than the MPP timeout: the replayed set is failed once, and the
   record is Free afterwards — so the next set starts from [recover_free] *)
Theorem recover_pending_aged c n t0 h0 a0 h a t g :
  funded c h -> ds n = Some (DPending a t, g) -> pend_ids 0 (parts n) = [] -> done_pres (parts n) = [] ->
  (mpp_ms c - (t0 - t) =? 0) = true ->
  In [OResp (hid h) r_tramp_fail] (map resps (snd (run c (sys_start n t0 h0 a0) (recover_schedule h)))) /\
  ds (nd (fst (run c (sys_start n t0 h0 a0) (recover_schedule h)))) = Some (DFree, g + 1) /\
  parts (nd (fst (run c (sys_start n t0 h0 a0) (recover_schedule h)))) = parts n.
Proof.
  intros Hf Hd Hpe Hdo Hage. unfold recover_schedule.
  destruct n as [dsn attsn partsn payrunn]. cbn [ds parts atts] in *. subst dsn.
  split; [|split].
  - first_htlc Hf. do 9 (later ltac:(first [rewrite Hpe | rewrite Hdo | rewrite Hage | match goal with |- context [mem_att a attsn] => destruct (mem_att a attsn) end])). now_ ltac:(first [rewrite Hpe | rewrite Hdo | rewrite Hage | match goal with |- context [mem_att a attsn] => destruct (mem_att a attsn) end]).
  - erewrite run_fst_step by (cbn [step sys_start pl entry_ lcs calls length find_select app l_pc nd now height next_att]; rewrite (funded_entry _ _ Hf); reflexivity).
    do 10 (erewrite run_fst_step by stepc ltac:(first [rewrite Hpe | rewrite Hdo | rewrite Hage | match goal with |- context [mem_att a attsn] => destruct (mem_att a attsn) end])). reflexivity.
  - erewrite run_fst_step by (cbn [step sys_start pl entry_ lcs calls length find_select app l_pc nd now height next_att]; rewrite (funded_entry _ _ Hf); reflexivity).
    do 10 (erewrite run_fst_step by stepc ltac:(first [rewrite Hpe | rewrite Hdo | rewrite Hage | match goal with |- context [mem_att a attsn] => destruct (mem_att a attsn) end])). reflexivity.
Qed.

(* ... and the NEXT funded set after that one failure is paid and settled: the hash is not wedged *)
Definition second_schedule (h2 : htlc) (np : nat) (p : list N) : list event :=
  [EvHtlc h2; EvProcess 5 NoFault; EvDeliver 5 true; EvProcess 6 NoFault; EvDeliver 6 true; EvProcess 7 NoFault; EvDeliver 7 true;
   EvProcess 8 NoFault; EvPayNewPart 8; EvPart np (PDone p); EvPayFinish 8 (PayComplete p); EvDeliver 8 true].

Theorem recover_aged_second_set c n t0 h0 a0 h h2 a t g p :
  funded c h -> funded c h2 -> mpp_ms c <> 0 -> ds n = Some (DPending a t, g) -> pend_ids 0 (parts n) = [] -> done_pres (parts n) = [] ->
  (mpp_ms c - (t0 - t) =? 0) = true -> a0 <> a -> mem_att a0 (atts n) = false ->
  In [OResp (hid h2) (Resolve p)]
     (map resps (snd (run c (sys_start n t0 h0 a0) (recover_schedule h ++ second_schedule h2 (length (parts n)) p)))).
Proof.
  intros Hf Hf2 Hm Hd Hpe Hdo Hage Hne Hfresh. unfold recover_schedule, second_schedule. cbn [app].
  assert (Hm' : (mpp_ms c =? 0) = false) by (apply N.eqb_neq; exact Hm).
  destruct n as [dsn attsn partsn payrunn]. cbn [ds parts atts] in *. subst dsn.
  first_htlc Hf.
  do 10 (later ltac:(first [rewrite Hpe | rewrite Hdo | rewrite Hage | match goal with |- context [mem_att a attsn] => destruct (mem_att a attsn) end])).
  eapply in_run_later; [sym1; rewrite (funded_entry _ _ Hf2); sym1; reflexivity|].
  do 10 (later ltac:(first [rewrite Hm' | rewrite (mem_att_set_att_other a0 a _ _ Hne) | rewrite Hfresh])).
  now_ ltac:(fail).
Qed.

(* ---------- the symbolic facts in terms of the part table ---------- *)
Lemma no_pending_pend_ids ps : (forall i, nth_error ps i <> Some PPend) -> forall b, pend_ids b ps = [].
Proof.
  induction ps as [|x r IH]; intros H b; [reflexivity|].
  assert (Hr : forall i, nth_error r i <> Some PPend) by (intros i; exact (H (S i))).
  destruct x; cbn; [exfalso; exact (H 0%nat eq_refl)|apply IH; exact Hr|apply IH; exact Hr].
Qed.

Lemma all_failed_done_pres ps : all_failed ps -> done_pres ps = [].
Proof.
  induction ps as [|x r IH]; intros H; [reflexivity|].
  assert (Hr : all_failed r) by (intros i st Hi; exact (H (S i) st Hi)).
  pose proof (H 0%nat x eq_refl). subst x. cbn. exact (IH Hr).
Qed.

(* a crash image is a start image: everything proved about histories from a start image holds again after the restart *)
Theorem crash_image_ok lv c s : wreach lv c s -> node_ok (nd (fst (step c s EvCrash))).
Proof.
  intros Hw. destruct (wreach_inv lv c s Hw) as (_ & _ & _ & HN). cbn [step fst nd set_payrun]. unfold node_ok, busy, hot. cbn [payrun parts ds].
  split; [reflexivity|]. split; [intros H; apply (ni_wa lv s HN); left; exact H|exact (ni_ng lv s HN)].
Qed.

(* umbrella: from ANY start image with no part pending, a cooperative environment settles a funded set — or, when the
   image holds an interrupted attempt older than the MPP timeout, fails it once and leaves the record Free *)
Theorem never_wedged c n t0 h0 a0 h (p : list N) :
  funded c h -> mpp_ms c <> 0 -> node_ok n -> (forall i, nth_error (parts n) i <> Some PPend) ->
  mem_att a0 (atts n) = false -> (forall a t g, ds n = Some (DPending a t, g) -> a0 <> a) ->
  exists evs,
    (exists p', In [OResp (hid h) (Resolve p')] (map resps (snd (run c (sys_start n t0 h0 a0) evs)))) \/
    (In [OResp (hid h) r_tramp_fail] (map resps (snd (run c (sys_start n t0 h0 a0) evs))) /\
     free_view (ds (nd (fst (run c (sys_start n t0 h0 a0) evs)))) /\ parts (nd (fst (run c (sys_start n t0 h0 a0) evs))) = parts n).
Proof.
  intros Hf Hm (Hp0 & Hwa & Hng) Hnp Hfresh Hatt.
  destruct (ds n) as [[[|a t|pr|] g]|] eqn:Hd.
  - eexists. left. exists p. apply recover_free; auto. rewrite Hd. exact I.
  - pose proof (no_pending_pend_ids _ Hnp 0%nat) as Hpe.
    destruct (done_pres (parts n)) as [|pr rest] eqn:Hdo.
    + destruct (mpp_ms c - (t0 - t) =? 0) eqn:Hage.
      * eexists. right. destruct (recover_pending_aged c n t0 h0 a0 h a t g Hf Hd Hpe Hdo Hage) as (A & B & C).
        split; [exact A|]. split; [rewrite B; exact I|exact C].
      * eexists. left. exists p. exact (recover_pending c n t0 h0 a0 h a t g p Hf Hd Hpe Hdo Hage (Hatt a t g eq_refl) Hfresh).
    + eexists. left. exists pr. exact (recover_done c n t0 h0 a0 h a t g pr rest Hf Hd Hpe Hdo).
  - eexists. left. exists pr. exact (recover_succ c n t0 h0 a0 h pr g Hf Hd).
  - exfalso. exact (Hng g eq_refl).
  - eexists. left. exists p. apply recover_free; auto. rewrite Hd. exact I.
Qed.

(* ---------- images with parts still pending ---------- *)
(* The interrupted attempt's pending parts resolve sooner or later (the network fails or settles every HTLC by its expiry):
   [res i] is how part i resolves. The schedule below lets that happen before the next funded set arrives. *)
Fixpoint resolve_with (res : nat -> pstat) (k : nat) (ps : list pstat) : list pstat :=
  match ps with [] => [] | PPend :: r => res k :: resolve_with res (S k) r | st :: r => st :: resolve_with res (S k) r end.
Fixpoint resolve_events (res : nat -> pstat) (k : nat) (ps : list pstat) : list event :=
  match ps with [] => [] | PPend :: r => EvPart k (res k) :: resolve_events res (S k) r | _ :: r => resolve_events res (S k) r end.
Definition res_ok (res : nat -> pstat) : Prop := forall i, res i <> PPend.

Lemma upd_app_len {A} (pre : list A) x y r : upd (length pre) x (pre ++ y :: r) = pre ++ x :: r.
Proof. induction pre as [|z pre IH]; cbn [length app upd]; [reflexivity|]. rewrite IH. reflexivity. Qed.

Lemma run_app c s a b : run c s (a ++ b) = let '(s1, o1) := run c s a in let '(s2, o2) := run c s1 b in (s2, o1 ++ o2).
Proof.
  revert s; induction a as [|e a IH]; intros s; cbn [app run].
  - destruct (run c s b) as [s2 o2]. reflexivity.
  - destruct (step c s e) as [s1 o]. rewrite IH. destruct (run c s1 a) as [s1' o1]. destruct (run c s1' b) as [s2 o2]. reflexivity.
Qed.

Lemma resolve_run c t0 h0 a0 res : res_ok res -> forall ps n pre, parts n = pre ++ ps ->
  run c (sys_start n t0 h0 a0) (resolve_events res (length pre) ps) =
  (sys_start (set_parts n (pre ++ resolve_with res (length pre) ps)) t0 h0 a0, map (fun _ => []) (resolve_events res (length pre) ps)).
Proof.
  intros Hres ps. induction ps as [|st ps IH]; intros n pre Hp.
  - cbn [resolve_events resolve_with run map]. rewrite <- Hp. destruct n; reflexivity.
  - assert (Hlen : forall x : pstat, length (pre ++ [x]) = S (length pre)) by (intros x; rewrite app_length; cbn; lia).
    destruct st as [|pr|].
    + (* pending: one EvPart *)
      cbn [resolve_events resolve_with run map].
      assert (Hstep : step c (sys_start n t0 h0 a0) (EvPart (length pre) (res (length pre)))
                      = (sys_start (set_parts n (pre ++ res (length pre) :: ps)) t0 h0 a0, [])).
      { cbn [step sys_start nd]. rewrite Hp. rewrite nth_error_app2 by lia. rewrite Nat.sub_diag. cbn [nth_error].
        rewrite upd_app_len. destruct (res (length pre)) eqn:Er; [exfalso; exact (Hres _ Er)|reflexivity|reflexivity]. }
      rewrite Hstep.
      specialize (IH (set_parts n (pre ++ res (length pre) :: ps)) (pre ++ [res (length pre)])).
      rewrite Hlen in IH. rewrite IH by (cbn [set_parts parts]; rewrite <- app_assoc; reflexivity).
      cbn [set_parts parts ds atts payrun]. rewrite <- app_assoc. reflexivity.
    + cbn [resolve_events resolve_with]. specialize (IH n (pre ++ [PDone pr])). rewrite Hlen in IH.
      rewrite IH by (rewrite <- app_assoc; exact Hp). rewrite <- app_assoc. reflexivity.
    + cbn [resolve_events resolve_with]. specialize (IH n (pre ++ [PFailed])). rewrite Hlen in IH.
      rewrite IH by (rewrite <- app_assoc; exact Hp). rewrite <- app_assoc. reflexivity.
Qed.

Lemma resolve_with_no_pend res : res_ok res -> forall ps k i, nth_error (resolve_with res k ps) i <> Some PPend.
Proof.
  intros Hres ps. induction ps as [|st ps IH]; intros k i; cbn [resolve_with]; [destruct i; discriminate|].
  destruct st; destruct i as [|i]; cbn [nth_error]; try apply IH; try discriminate.
  intros H; inversion H as [H1]. exact (Hres _ H1).
Qed.

(* a part that is not failed after the resolution was not failed before either *)
Lemma resolve_with_busy res ps : forall k i st, nth_error (resolve_with res k ps) i = Some st -> st <> PFailed ->
  exists st0, nth_error ps i = Some st0 /\ st0 <> PFailed.
Proof.
  induction ps as [|s0 ps IH]; intros k i st; cbn [resolve_with]; [destruct i; discriminate|].
  destruct s0; destruct i as [|i]; cbn [nth_error]; intros H Hn; try (eapply IH; eassumption).
  - exists PPend. split; [reflexivity|discriminate].
  - inversion H; subst. eexists; split; [reflexivity|discriminate].
  - inversion H; subst. congruence.
Qed.

(* umbrella without the "no part pending" hypothesis: however the pending parts of the interrupted attempt resolve, the
   environment that lets them resolve and then cooperates settles a funded set (or, for an aged interrupted attempt with
   nothing completed, fails it once and leaves the record Free) *)
Theorem never_wedged_pending c n t0 h0 a0 h (p : list N) (res : nat -> pstat) :
  funded c h -> mpp_ms c <> 0 -> node_ok n -> res_ok res ->
  mem_att a0 (atts n) = false -> (forall a t g, ds n = Some (DPending a t, g) -> a0 <> a) ->
  exists evs,
    (exists p', In [OResp (hid h) (Resolve p')] (map resps (snd (run c (sys_start n t0 h0 a0) evs)))) \/
    (In [OResp (hid h) r_tramp_fail] (map resps (snd (run c (sys_start n t0 h0 a0) evs))) /\
     free_view (ds (nd (fst (run c (sys_start n t0 h0 a0) evs)))) /\
     parts (nd (fst (run c (sys_start n t0 h0 a0) evs))) = resolve_with res 0 (parts n)).
Proof.
  intros Hf Hm Hn Hres Hfresh Hatt.
  set (n' := set_parts n (resolve_with res 0 (parts n))).
  assert (Hn' : node_ok n').
  { destruct Hn as (Hp0 & Hwa & Hng). split; [exact Hp0|]. split; [|exact Hng].
    intros (i & st & Hi & Hst). apply Hwa. destruct (resolve_with_busy res (parts n) 0%nat i st Hi Hst) as (st0 & H0 & H1). exists i, st0. split; assumption. }
  destruct (never_wedged c n' t0 h0 a0 h p Hf Hm Hn' (resolve_with_no_pend res Hres (parts n) 0%nat) Hfresh Hatt) as [evs Hevs].
  exists (resolve_events res 0 (parts n) ++ evs).
  pose proof (resolve_run c t0 h0 a0 res Hres (parts n) n [] eq_refl) as Hrun. cbn [length app] in Hrun. fold n' in Hrun.
  rewrite run_app, Hrun. destruct (run c (sys_start n' t0 h0 a0) evs) as [s2 o2] eqn:E2. cbn [fst snd] in *.
  rewrite map_app.
  destruct Hevs as [[p' Hin]|(Hin & Hfv & Hparts)].
  - left. exists p'. apply in_or_app. right. exact Hin.
  - right. split; [apply in_or_app; right; exact Hin|]. split; [exact Hfv|exact Hparts].
Qed.
