(* IsolationProofs.v — C14: the global system is a product of per-hash components. *)
From Tramp Require Import Model.Base Model.Tlv Model.Fee Model.Classify Model.Sys Check.Common Check.SysCheck.

Lemma find_put_same h s l : find (fun x => Nat.eqb (fst x) h) (put_assoc h s l) = Some (h, s).
Proof.
  induction l as [|x l IH]; cbn [put_assoc find]; [cbn; rewrite Nat.eqb_refl; reflexivity|].
  destruct (Nat.eqb (fst x) h) eqn:E; cbn [find fst]; [rewrite Nat.eqb_refl; reflexivity|rewrite E; exact IH].
Qed.

Lemma find_put_other h h' s l : h <> h' ->
  find (fun x => Nat.eqb (fst x) h') (put_assoc h s l) = find (fun x => Nat.eqb (fst x) h') l.
Proof.
  intros Hne. induction l as [|x l IH]; cbn [put_assoc find].
  - cbn. destruct (Nat.eqb h h') eqn:E; [apply Nat.eqb_eq in E; contradiction|reflexivity].
  - destruct (Nat.eqb (fst x) h) eqn:E; cbn [find fst].
    + apply Nat.eqb_eq in E. destruct (Nat.eqb h h') eqn:E2; [apply Nat.eqb_eq in E2; contradiction|].
      rewrite E. rewrite E2. reflexivity.
    + destruct (Nat.eqb (fst x) h'); [reflexivity|exact IH].
Qed.

Lemma get_put_same g h s : get_comp (put_comp g h s) h = s.
Proof. unfold get_comp, put_comp; cbn [comps]. rewrite find_put_same. reflexivity. Qed.

Lemma get_put_other g h h' s : h <> h' -> get_comp (put_comp g h s) h' = get_comp g h'.
Proof. intros Hne. unfold get_comp, put_comp; cbn [comps gnow gheight]. rewrite find_put_other by exact Hne. reflexivity. Qed.

(* an event of hash h changes only component h, and by exactly the per-hash step *)
Lemma gev_component w g h ev sel :
  let ev' := match ev with EvDeliver c _ => EvDeliver c sel | x => x end in
  get_comp (fst (gstep w g (GEv h ev) sel)) h = fst (step (w_cfg w) (get_comp g h) ev') /\
  snd (gstep w g (GEv h ev) sel) = map (lift_out h) (snd (step (w_cfg w) (get_comp g h) ev')) /\
  forall h', h <> h' -> get_comp (fst (gstep w g (GEv h ev) sel)) h' = get_comp g h'.
Proof.
  cbn [gstep]. destruct (step (w_cfg w) (get_comp g h) _) as [s' o] eqn:E. cbn [fst snd].
  split; [apply get_put_same|]. split; [reflexivity|]. intros h' Hne. apply get_put_other. exact Hne.
Qed.

(* an HTLC: classified to hash h it touches only component h; not trampoline it touches nothing *)
Lemma ghtlc_component w g rq sel :
  match gclassify w rq with
  | KTramp h t =>
      get_comp (fst (gstep w g (GHtlc rq) sel)) h = fst (step_htlc (w_cfg w) (get_comp g h) (htlc_of rq t) sel) /\
      snd (gstep w g (GHtlc rq) sel) = map (lift_out h) (snd (step_htlc (w_cfg w) (get_comp g h) (htlc_of rq t) sel)) /\
      forall h', h <> h' -> get_comp (fst (gstep w g (GHtlc rq) sel)) h' = get_comp g h'
  | _ => fst (gstep w g (GHtlc rq) sel) = g
  end.
Proof.
  cbn [gstep]. destruct (gclassify w rq) as [|r|h t| |]; try reflexivity.
  destruct (step_htlc (w_cfg w) (get_comp g h) _ sel) as [s' o] eqn:E. cbn [fst snd].
  split; [apply get_put_same|]. split; [reflexivity|]. intros h' Hne. apply get_put_other. exact Hne.
Qed.

(* the entries of the component list evolve independently under a global event *)
Lemma map_comps_find f g h :
  find (fun x => Nat.eqb (fst x) h) (fst (map_comps f g)) =
  match find (fun x => Nat.eqb (fst x) h) (comps g) with
  | Some x => Some (fst x, fst (f (snd x)))
  | None => None
  end.
Proof.
  unfold map_comps. induction (comps g) as [|x l IH]; cbn [fold_right find]; [reflexivity|].
  destruct (f (snd x)) as [s' o] eqn:E. cbn [fst snd find].
  destruct (Nat.eqb (fst x) h) eqn:Eh; [rewrite E; reflexivity|exact IH].
Qed.
