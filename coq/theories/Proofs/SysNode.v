(* SysNode.v — the node-level invariant NInv of the composite system: what the durable record, the sendpay parts and the
   running pay command can look like in each lifecycle state. It carries C08 (write-ahead), C05 (no pay while an attempt
   is live) and C02 (no fail-back while the outgoing payment can succeed). It holds along every history that respects the
   environment contract and injects no error on a READ rpc (errors on writes and on pay, crashes, any interleaving of
   two lifecycles are all included). *)
From Tramp Require Import Model.Base Model.Fee Model.Classify Model.Node Model.Provider Model.ProviderSys Model.Sys.
From Tramp Require Import Proofs.FeeProofs Proofs.SysBasics Proofs.EntryProofs Proofs.SysEntry Proofs.SysShape Proofs.SysTheorems Proofs.SysCalls.
From Coq Require Import ZifyBool ZifyNat ZifyN.

(* ---------- vocabulary ---------- *)
Definition hotv (v : dsval) : Prop := match v with DPending _ _ | DSucc _ => True | _ => False end.
Definition hot (n : node) : Prop := match ds n with Some (v, _) => hotv v | None => False end.
Definition tok (n : node) (g : N) : Prop := match ds n with Some (_, cur) => g <= cur | None => False end.
Definition gen_is (n : node) (g : N) : Prop := match ds n with Some (_, cur) => cur = g | None => False end.
Definition quiet (n : node) : Prop := all_failed (parts n) /\ payrun n = 0.
Definition busy (n : node) : Prop := exists i st, nth_error (parts n) i = Some st /\ st <> PFailed.
Definition st_of (cs : list call) (k : nat) : option cstatus := option_map c_st (nth_error cs k).
Definition wproj (n : node) (cs : list call) (w : waitst) : psys := {| ps_nd := n; ps_calls := cs; ps_st := SWait w |}.

Definition free_view (v : option (dsval * N)) : Prop := match v with None | Some (DFree, _) => True | _ => False end.

(* what a lifecycle at pc [p] knows about the node *)
Definition lc_ok (n : node) (cs : list call) (p : pc) : Prop :=
  match p with
  | PFetch k => forall v, st_of cs k = Some (Replied (YState v)) -> free_view v -> all_failed (parts n)
  | PWait kk w => wait_inv (wproj n cs w) w /\ match kk with AfterPay _ g => tok n g | _ => True end
  | PMarkF1 _ _ _ _ | PMarkF2 _ _ _ _ | PSelect _ => all_failed (parts n)
  | PAdd1 k _ _ _ _ => all_failed (parts n) /\ forall g, st_of cs k = Some (Replied (YGen g)) -> tok n g /\ hot n
  | PAdd2 _ _ g _ _ _ => all_failed (parts n) /\ hot n /\ tok n g
  | PPay k _ g =>
      tok n g /\
      match st_of cs k with
      | Some Unprocessed => quiet n /\ hot n
      | Some Running => payrun n = 1
      | Some (Replied y) => payrun n = 0 /\
          match y with YPay (PayComplete p) => has_done p (parts n) | YPay PayFailed => all_failed (parts n) | _ => True end
      | _ => True
      end
  | PMFp1 _ _ g | PMFp2 _ _ g => tok n g /\ (gen_is n g -> quiet n)
  | _ => True
  end.

(* generation tokens held by lifecycles *)
Definition att_tok (p : pc) : option N :=
  match p with PAdd2 _ _ g _ _ _ | PPay _ _ g | PWait (AfterPay _ g) _ => Some g | _ => None end.
Definition det_tok (p : pc) : option N := match p with PMFp1 _ _ g | PMFp2 _ _ g => Some g | _ => None end.

(* replies to read rpcs have the shape the rpc promises (no injected read error), and the record is never unparsable *)
Definition reply_ok (q : rpc) (y : reply) : Prop :=
  match q with
  | QListState => exists v, y = YState v /\ forall g, v <> Some (DGarbage, g)
  | QListPend => exists l, y = YPids l
  | QListDone => exists l, y = YPres l
  | QWaitPart _ => (exists p, y = YPre p) \/ y = YPartFailed
  | _ => True
  end.

(* a call awaited by the wait_payment that pay() falls back to *)
Definition pay_wait_call (s : sys) (k : nat) : Prop :=
  exists i x a g w, nth_error (lcs (pl s)) i = Some x /\ l_pc x = PWait (AfterPay a g) w /\ In k (awaits (l_pc x)).

(* Two levels of the environment hypothesis:
     strict = true : no injected error on ANY read rpc (needed for C02, C06);
     strict = false: no injected error on the reads of the wait_payment inside pay() — the only place where a read error
                     breaks write-ahead (KF-B); errors on listdatastore and on the restart path's wait_payment are allowed
                     (they make the plugin fail HTLCs or panic, KF-C / KF-A, but never touch the record wrongly). *)
Section Strict.
Variable strict : bool.

Definition typed_reply (s : sys) (k : nat) (q : rpc) (y : reply) : Prop :=
  if strict then reply_ok q y else (pay_wait_call s k -> reply_ok q y).

Record NInv (s : sys) : Prop := {
  ni_lc : forall i x, nth_error (lcs (pl s)) i = Some x -> lc_ok (nd s) (calls s) (l_pc x);
  ni_pay : payrun (nd s) <> 0 -> exists i x k a g, nth_error (lcs (pl s)) i = Some x /\ l_pc x = PPay k a g /\ st_of (calls s) k = Some Running;
  ni_t2 : forall i j x y g g0, nth_error (lcs (pl s)) i = Some x -> nth_error (lcs (pl s)) j = Some y ->
            att_tok (l_pc x) = Some g -> det_tok (l_pc y) = Some g0 -> g0 < g;
  ni_t3 : forall i j x y k a am mf md g g0, nth_error (lcs (pl s)) i = Some x -> nth_error (lcs (pl s)) j = Some y ->
            l_pc x = PAdd1 k a am mf md -> st_of (calls s) k = Some (Replied (YGen g)) -> det_tok (l_pc y) = Some g0 -> g0 < g;
  ni_wa : busy (nd s) \/ payrun (nd s) <> 0 -> hot (nd s);
  ni_ng : forall g, ds (nd s) <> Some (DGarbage, g);
  ni_r : forall k cl y, nth_error (calls s) k = Some cl -> c_st cl = Replied y -> typed_reply s k (c_rpc cl) y
}.

(* the environment contract on one event, in the state it is applied to *)
Definition ev_wf (s : sys) (ev : event) : Prop :=
  match ev with
  | EvProcess cid f =>
      f = NoFault \/ forall cl, nth_error (calls s) cid = Some cl -> is_read (c_rpc cl) = false \/ (strict = false /\ ~ pay_wait_call s cid)
  | EvPayFinish _ (PayComplete p) => has_done p (parts (nd s))     (* N1 *)
  | EvPayFinish _ PayFailed => all_failed (parts (nd s))           (* N2 *)
  | _ => True
  end.

(* ---------- uniqueness of the attached lifecycle ---------- *)
Lemma att_unique s i j x y :
  InvU s -> nth_error (lcs (pl s)) i = Some x -> nth_error (lcs (pl s)) j = Some y ->
  attached (l_pc x) = true -> attached (l_pc y) = true -> i = j /\ x = y.
Proof.
  intros HU Hx Hy Ax Ay. unfold InvU in HU. destruct (entry_ (pl s)).
  - pose proof (n_att_one_unique _ HU i j x y Hx Hy Ax Ay). subst j. split; congruence.
  - pose proof (n_att_zero_none _ HU i x Hx). congruence.
Qed.

(* ---------- who owns a live call, by its rpc ---------- *)
Lemma st_of_some cs k st : st_of cs k = Some st -> exists cl, nth_error cs k = Some cl /\ c_st cl = st.
Proof. unfold st_of. destruct (nth_error cs k) as [cl|]; cbn; [|discriminate]. intros H; inversion H. eauto. Qed.

Lemma st_of_nth cs k cl : nth_error cs k = Some cl -> st_of cs k = Some (c_st cl).
Proof. unfold st_of. intros ->. reflexivity. Qed.

Lemma has_call_rpc cs k q cl : has_call cs k q -> nth_error cs k = Some cl -> c_rpc cl = q.
Proof. intros (st & H & _) Hk. rewrite Hk in H. inversion H. reflexivity. Qed.

Definition owner_shape (k : nat) (q : rpc) (p : pc) : Prop :=
  match q with
  | QPay _ _ _ _ _ => exists a g, p = PPay k a g
  | QWriteState m gg DFree =>
      m = MustReplace /\ ((exists a g t, p = PMarkF2 k a g t /\ gg = Some g) \/ (exists a g, p = PMFp2 k a g /\ gg = Some g))
  | QWriteState m gg (DPending a _) => m = CreateOrReplace /\ gg = None /\ exists am mf md, p = PAdd1 k a am mf md
  | QWriteState m gg (DSucc pr) => m = CreateOrReplace /\ gg = None /\ exists a, p = PMS1 k a pr
  | QWriteState _ _ DGarbage => False
  | QListState => p = PFetch k
  | _ => True
  end.

Lemma live_owner c s k cl :
  InvC c s -> InvO s -> nth_error (calls s) k = Some cl -> live (c_st cl) ->
  exists i x, nth_error (lcs (pl s)) i = Some x /\ In k (awaits (l_pc x)) /\ owner_shape k (c_rpc cl) (l_pc x).
Proof.
  intros [Ht _] HO Hk Hl. destruct (HO k cl Hk Hl) as (i & x & Hx & Hin). exists i, x. split; [exact Hx|]. split; [exact Hin|].
  specialize (Ht i x Hx).
  destruct (l_pc x) as [k1|kk w|k1 a g t|k1 a g t|d|k1 a am mf md|k1 a g am mf md|k1 a g|k1 a pr|k1 a|k1 a g|k1 a g| |];
    cbn [awaits] in Hin; try (destruct Hin; fail); cbn [pc_calls_ok] in Ht.
  - destruct Hin as [<-|[]]. rewrite (has_call_rpc _ _ _ _ Ht Hk). reflexivity.
  - destruct w as [k1|k1 l|aw]; cbn [awaits] in Hin.
    + destruct Hin as [<-|[]]. rewrite (has_call_rpc _ _ _ _ Ht Hk). exact I.
    + destruct Hin as [<-|[]]. rewrite (has_call_rpc _ _ _ _ Ht Hk). exact I.
    + apply in_map_iff in Hin as ((pid & c0) & Hc & Hi). cbn in Hc. subst c0. rewrite (has_call_rpc _ _ _ _ (Ht pid k Hi) Hk). exact I.
  - destruct Hin as [<-|[]]. rewrite (has_call_rpc _ _ _ _ Ht Hk). exact I.
  - destruct Hin as [<-|[]]. rewrite (has_call_rpc _ _ _ _ Ht Hk). cbn. split; [reflexivity|]. left. eauto.
  - destruct Hin as [<-|[]]. destruct Ht as (t & Ht). rewrite (has_call_rpc _ _ _ _ Ht Hk). cbn. repeat split; eauto.
  - destruct Hin as [<-|[]]. rewrite (has_call_rpc _ _ _ _ Ht Hk). exact I.
  - destruct Hin as [<-|[]]. destruct Ht as (am & mf & md & Ht). rewrite (has_call_rpc _ _ _ _ Ht Hk). cbn. eauto.
  - destruct Hin as [<-|[]]. rewrite (has_call_rpc _ _ _ _ Ht Hk). cbn. repeat split; eauto.
  - destruct Hin as [<-|[]]. rewrite (has_call_rpc _ _ _ _ Ht Hk). exact I.
  - destruct Hin as [<-|[]]. rewrite (has_call_rpc _ _ _ _ Ht Hk). exact I.
  - destruct Hin as [<-|[]]. rewrite (has_call_rpc _ _ _ _ Ht Hk). cbn. split; [reflexivity|]. right. eauto.
Qed.

(* a live pay call belongs to the attached lifecycle, which is at PPay *)
Lemma live_pay_owner c s k cl b am mf md rt :
  InvC c s -> InvO s -> nth_error (calls s) k = Some cl -> c_rpc cl = QPay b am mf md rt -> live (c_st cl) ->
  exists i x a g, nth_error (lcs (pl s)) i = Some x /\ l_pc x = PPay k a g.
Proof.
  intros HC HO Hk Hq Hl. destruct (live_owner c s k cl HC HO Hk Hl) as (i & x & Hx & _ & Hs). rewrite Hq in Hs. cbn in Hs.
  destruct Hs as (a & g & Hp). exists i, x, a, g. split; assumption.
Qed.

(* while the attached lifecycle is not at PPay, no pay command runs and none can start *)
Lemma not_paying c s i x :
  InvU s -> InvC c s -> InvO s -> NInv s -> nth_error (lcs (pl s)) i = Some x -> attached (l_pc x) = true ->
  (forall k a g, l_pc x <> PPay k a g) ->
  payrun (nd s) = 0 /\ forall k cl b am mf md rt, nth_error (calls s) k = Some cl -> c_rpc cl = QPay b am mf md rt -> ~ live (c_st cl).
Proof.
  intros HU HC HO HN Hx Ax Hnp. split.
  - destruct (N.eq_dec (payrun (nd s)) 0) as [E|E]; [exact E|]. exfalso.
    destruct (ni_pay s HN E) as (j & y & k & a & g & Hy & Hp & _).
    destruct (att_unique s i j x y HU Hx Hy Ax ltac:(rewrite Hp; reflexivity)) as (_ & ->). exact (Hnp _ _ _ Hp).
  - intros k cl b am mf md rt Hk Hq Hl. destruct (live_pay_owner c s k cl _ _ _ _ _ HC HO Hk Hq Hl) as (j & y & a & g & Hy & Hp).
    destruct (att_unique s i j x y HU Hx Hy Ax ltac:(rewrite Hp; reflexivity)) as (_ & ->). exact (Hnp _ _ _ Hp).
Qed.

Lemma no_new_of c s i x w :
  InvU s -> InvC c s -> InvO s -> NInv s -> nth_error (lcs (pl s)) i = Some x -> attached (l_pc x) = true ->
  (forall k a g, l_pc x <> PPay k a g) -> no_new (wproj (nd s) (calls s) w).
Proof.
  intros HU HC HO HN Hx Ax Hnp. destruct (not_paying c s i x HU HC HO HN Hx Ax Hnp) as (Hp & Hq).
  split; [exact Hp|]. cbn [wproj ps_calls]. intros cid cl Hcl. destruct (c_rpc cl) eqn:Er; try exact I.
  specialize (Hq cid cl _ _ _ _ _ Hcl Er). unfold live in Hq. repeat split.
  - intros E. apply Hq. auto.
  - intros E. apply Hq. auto.
  - intros y E. apply Hq. eauto.
Qed.

(* ---------- stability of what a lifecycle knows ---------- *)
Lemma wait_inv_ext n n' cs cs' w :
  parts n' = parts n -> (forall kk k, In k (awaits (PWait kk w)) -> nth_error cs' k = nth_error cs k) ->
  wait_inv (wproj n cs w) w -> wait_inv (wproj n' cs' w) w.
Proof.
  intros Hp Hc. pose (kk := AfterPay 0 0). destruct w as [k|k l|aw]; cbn [wait_inv wproj ps_nd ps_calls]; rewrite Hp.
  - rewrite (Hc kk k (or_introl eq_refl)). auto.
  - rewrite (Hc kk k (or_introl eq_refl)). auto.
  - intros (Hf & He). split; [exact Hf|]. intros pid cid Hin. rewrite (Hc kk cid); [exact (He pid cid Hin)|].
    cbn [awaits]. apply in_map_iff. exists (pid, cid). auto.
Qed.

Lemma lc_ok_ext n n' cs cs' p :
  ds n' = ds n -> parts n' = parts n -> payrun n' = payrun n ->
  (forall k, In k (awaits p) -> nth_error cs' k = nth_error cs k) ->
  lc_ok n cs p -> lc_ok n' cs' p.
Proof.
  intros Hd Hp Hr Hc.
  assert (St : forall k, In k (awaits p) -> st_of cs' k = st_of cs k) by (intros k Hk; unfold st_of; rewrite (Hc k Hk); reflexivity).
  destruct p as [k1|kk w|k1 a g t|k1 a g t|d|k1 a am mf md|k1 a g am mf md|k1 a g|k1 a pr|k1 a|k1 a g|k1 a g| |];
    cbn [lc_ok awaits] in *; unfold tok, hot, gen_is, quiet; rewrite ?Hd, ?Hp, ?Hr; auto.
  - rewrite (St k1 (or_introl eq_refl)). auto.
  - intros (Hw & Ht). split; [|exact Ht]. apply (wait_inv_ext n n' cs cs'); [exact Hp| |exact Hw].
    intros kk0 k Hk. apply Hc. destruct w; exact Hk.
  - rewrite (St k1 (or_introl eq_refl)). auto.
  - rewrite (St k1 (or_introl eq_refl)). auto.
Qed.

Lemma table_other cs cid cn new k :
  (k < length cs)%nat -> k <> cid -> ~ In k cn ->
  nth_error (cancel_calls cn (set_status cid Delivered cs) ++ mk_calls new) k = nth_error cs k.
Proof.
  intros Hlt Hne Hnc. rewrite nth_error_app1 by (rewrite table_length; exact Hlt).
  destruct (nth_error (cancel_calls cn (set_status cid Delivered cs)) k) as [cl|] eqn:E.
  - destruct (cancel_calls_spec _ _ _ _ E) as (cl0 & H0 & _ & Hsame & _). rewrite (Hsame Hnc).
    rewrite nth_set_status_other in H0 by congruence. congruence.
  - apply nth_error_None in E. rewrite table_length in E. lia.
Qed.

(* a write to the state record: generation bumps past every token; claims of detached lifecycles become vacuous *)
Definition bump (n : node) (g' : N) : Prop := match ds n with Some (_, cur) => g' = cur + 1 | None => g' = 0 end.
Definition nohot (cs : list call) (p : pc) : Prop :=
  match p with
  | PAdd2 _ _ _ _ _ _ | PPay _ _ _ => False
  | PAdd1 k _ _ _ _ => forall g, st_of cs k <> Some (Replied (YGen g))
  | _ => True
  end.

Lemma tok_bump n v g' g : bump n g' -> tok n g -> tok (set_ds n (Some (v, g'))) g.
Proof. unfold bump, tok. cbn. destruct (ds n) as [[v0 cur]|]; [|tauto]. intros -> H. lia. Qed.

Lemma gen_is_bump n v g' g : bump n g' -> tok n g -> ~ gen_is (set_ds n (Some (v, g'))) g.
Proof. unfold bump, tok, gen_is. cbn. destruct (ds n) as [[v0 cur]|]; [|tauto]. intros -> H E. lia. Qed.

Lemma lc_ok_write n v g' cs p :
  bump n g' -> hotv v \/ nohot cs p -> lc_ok n cs p -> lc_ok (set_ds n (Some (v, g'))) cs p.
Proof.
  intros Hb Hh.
  assert (Hot : hotv v -> hot (set_ds n (Some (v, g')))) by (intros H; unfold hot; cbn; exact H).
  destruct p as [k1|kk w|k1 a g t|k1 a g t|d|k1 a am mf md|k1 a g am mf md|k1 a g|k1 a pr|k1 a|k1 a g|k1 a g| |];
    cbn [lc_ok]; cbn [set_ds parts payrun]; auto.
  - intros (Hw & Ht). split; [exact Hw|]. destruct kk; [exact I|]. apply tok_bump; assumption.
  - intros (Ha & Hg). split; [exact Ha|]. intros g Hst. destruct (Hg g Hst) as (T & H). split; [apply tok_bump; assumption|].
    destruct Hh as [Hh|Hh]; [exact (Hot Hh)|]. exfalso. exact (Hh g Hst).
  - intros (Ha & H & T). destruct Hh as [Hh|[]]. split; [exact Ha|]. split; [exact (Hot Hh)|apply tok_bump; assumption].
  - intros (T & Hm). destruct Hh as [Hh|[]]. split; [apply tok_bump; assumption|].
    destruct (st_of cs k1) as [[| |y| | |]|]; auto. destruct Hm as (Q & _). split; [exact Q|exact (Hot Hh)].
  - intros (T & Hc). split; [apply tok_bump; assumption|]. intros E. exfalso. exact (gen_is_bump _ _ _ _ Hb T E).
  - intros (T & Hc). split; [apply tok_bump; assumption|]. intros E. exfalso. exact (gen_is_bump _ _ _ _ Hb T E).
Qed.

(* a status change of one call leaves lifecycles that do not await it alone *)
Lemma lc_ok_status n cs cid st p : ~ In cid (awaits p) -> lc_ok n cs p -> lc_ok n (set_status cid st cs) p.
Proof.
  intros Hn. apply lc_ok_ext; auto. intros k Hk. apply nth_set_status_other. intros ->. exact (Hn Hk).
Qed.

(* ---------- installing one lifecycle step (the node is not touched) ---------- *)
Lemma att_det_excl p g g0 : att_tok p = Some g -> det_tok p = Some g0 -> False.
Proof. destruct p as [| [] w | | | | | | | | | | | |]; cbn; congruence. Qed.

Lemma att_tok_attached p g : att_tok p = Some g -> attached p = true.
Proof. destruct p as [| [] w | | | | | | | | | | | |]; cbn; congruence. Qed.

Lemma st_of_new cs new k : (length cs <= k)%nat -> st_of (cs ++ mk_calls new) k = Some Unprocessed \/ st_of (cs ++ mk_calls new) k = None.
Proof.
  intros H. unfold st_of. rewrite nth_error_app2 by exact H. destruct (nth_error (mk_calls new) (k - length cs)) as [cl|] eqn:E; [|right; reflexivity].
  destruct (nth_mk_calls _ _ _ E) as (q & _ & ->). left. reflexivity.
Qed.

Definition prov_att (cs : list call) (old new : pc) : Prop :=
  forall g, att_tok new = Some g ->
    att_tok old = Some g \/ exists k a am mf md, old = PAdd1 k a am mf md /\ st_of cs k = Some (Replied (YGen g)).
Definition prov_det (old new : pc) : Prop :=
  forall g0, det_tok new = Some g0 -> det_tok old = Some g0 \/ att_tok old = Some g0.
Definition fresh_add1 (cs : list call) (new : pc) : Prop :=
  forall k a am mf md, new = PAdd1 k a am mf md -> (length cs <= k)%nat.
(* a call that pay()'s wait_payment awaits was issued by that same wait *)
Definition prov_wait (cs : list call) (old new : pc) : Prop :=
  forall a g w k, new = PWait (AfterPay a g) w -> In k (awaits new) -> (k < length cs)%nat ->
    exists w0, old = PWait (AfterPay a g) w0 /\ In k (awaits old).

Lemma NInv_apply c s i a x cid :
  InvU s -> InvC c s -> InvO s -> NInv s ->
  nth_error (lcs (pl s)) i = Some x ->
  (In cid (awaits (l_pc x)) /\ exists cl y, nth_error (calls s) cid = Some cl /\ c_st cl = Replied y) \/
  ((length (calls s) <= cid)%nat /\ awaits (l_pc x) = []) ->
  (forall k, In k (a_cancel a) -> In k (awaits (l_pc x)) /\ k <> cid) ->
  lc_ok (nd s) (cancel_calls (a_cancel a) (set_status cid Delivered (calls s)) ++ mk_calls (a_new a)) (a_pc a) ->
  prov_att (calls s) (l_pc x) (a_pc a) -> prov_det (l_pc x) (a_pc a) -> fresh_add1 (calls s) (a_pc a) ->
  prov_wait (calls s) (l_pc x) (a_pc a) ->
  NInv (fst (apply_adv (with_calls s (set_status cid Delivered (calls s))) i a)).
Proof.
  intros HU HC HO HN Hx Hcid Hcn Hnew Hpa Hpd Hfr Hpw.
  destruct (apply_adv_lcs (with_calls s (set_status cid Delivered (calls s))) i a x Hx) as (Hl & _ & Hnd & _ & _ & Hcalls & _).
  cbn [with_calls calls pl lcs nd] in Hl, Hcalls, Hnd.
  set (s' := fst (apply_adv (with_calls s (set_status cid Delivered (calls s))) i a)) in *.
  set (tbl := cancel_calls (a_cancel a) (set_status cid Delivered (calls s)) ++ mk_calls (a_new a)) in *.
  pose proof HC as [Ht Hd].
  (* calls awaited by another lifecycle are untouched *)
  assert (Other : forall j y, j <> i -> nth_error (lcs (pl s)) j = Some y -> forall k, In k (awaits (l_pc y)) -> nth_error tbl k = nth_error (calls s) k).
  { intros j y Hne Hy k Hk. apply table_other.
    - exact (pc_calls_ok_awaits_lt c _ _ _ (Ht j y Hy) k Hk).
    - intros ->. destruct Hcid as [(Hin & _)|(Hge & _)].
      + exact (Hd i j x y cid (not_eq_sym Hne) Hx Hy Hin Hk).
      + pose proof (pc_calls_ok_awaits_lt c _ _ _ (Ht j y Hy) cid Hk). lia.
    - intros Hin. destruct (Hcn k Hin) as (Hkx & _). exact (Hd i j x y k (not_eq_sym Hne) Hx Hy Hkx Hk). }
  assert (Lcs : forall j y, nth_error (lcs (pl s')) j = Some y -> (j = i /\ y = set_pc x (a_pc a)) \/ (j <> i /\ nth_error (lcs (pl s)) j = Some y)).
  { intros j y Hy. rewrite Hl in Hy. destruct (nth_upd_cases _ _ _ _ _ Hy) as [[-> ->]|[Hne Hy']]; [left; auto|right; auto]. }
  assert (Tok2 : forall j y g g0, j <> i -> nth_error (lcs (pl s)) j = Some y -> att_tok (l_pc y) = Some g -> det_tok (a_pc a) = Some g0 -> g0 < g).
  { intros j y g g0 Hne Hy Hg Hg0. destruct (Hpd g0 Hg0) as [Ho|Ho].
    - exact (ni_t2 s HN j i y x g g0 Hy Hx Hg Ho).
    - exfalso. apply Hne. exact (proj1 (att_unique s j i y x HU Hy Hx (att_tok_attached _ _ Hg) (att_tok_attached _ _ Ho))). }
  constructor.
  - (* ni_lc *)
    intros j y Hy. rewrite Hnd, Hcalls. destruct (Lcs j y Hy) as [(-> & ->)|(Hne & Hy')]; [exact Hnew|].
    apply (lc_ok_ext (nd s) (nd s) (calls s) tbl); [reflexivity|reflexivity|reflexivity|exact (Other j y Hne Hy')|exact (ni_lc s HN j y Hy')].
  - (* ni_pay *)
    rewrite Hnd. intros Hp. destruct (ni_pay s HN Hp) as (j & y & k & a0 & g & Hy & Hpc & Hst).
    assert (Hne : j <> i).
    { intros ->. rewrite Hx in Hy. inversion Hy; subst y. rewrite Hpc in Hcid. cbn [awaits] in Hcid.
      destruct Hcid as [([<-|[]] & cl & y0 & Hcl & Hrep)|(_ & E)]; [|discriminate].
      unfold st_of in Hst. rewrite Hcl in Hst. cbn in Hst. congruence. }
    exists j, y, k, a0, g. split; [rewrite Hl; rewrite nth_error_upd_other by congruence; exact Hy|]. split; [exact Hpc|].
    rewrite Hcalls. unfold st_of. rewrite (Other j y Hne Hy k ltac:(rewrite Hpc; left; reflexivity)). exact Hst.
  - (* ni_t2 *)
    intros j1 j2 y1 y2 g g0 Hy1 Hy2 Hg Hg0.
    destruct (Lcs j1 y1 Hy1) as [(-> & ->)|(Hn1 & Hy1')]; destruct (Lcs j2 y2 Hy2) as [(-> & ->)|(Hn2 & Hy2')]; cbn [set_pc l_pc] in *.
    + exfalso. exact (att_det_excl _ _ _ Hg Hg0).
    + destruct (Hpa g Hg) as [Ho|(k & a0 & am & mf & md & Ho & Hst)].
      * exact (ni_t2 s HN i j2 x y2 g g0 Hx Hy2' Ho Hg0).
      * exact (ni_t3 s HN i j2 x y2 k a0 am mf md g g0 Hx Hy2' Ho Hst Hg0).
    + exact (Tok2 j1 y1 g g0 Hn1 Hy1' Hg Hg0).
    + exact (ni_t2 s HN j1 j2 y1 y2 g g0 Hy1' Hy2' Hg Hg0).
  - (* ni_t3 *)
    intros j1 j2 y1 y2 k a0 am mf md g g0 Hy1 Hy2 Hpc Hst Hg0. rewrite Hcalls in Hst.
    destruct (Lcs j1 y1 Hy1) as [(-> & ->)|(Hn1 & Hy1')].
    + exfalso. cbn [set_pc l_pc] in Hpc. pose proof (Hfr _ _ _ _ _ Hpc) as Hge.
      unfold tbl in Hst. destruct (st_of_new (cancel_calls (a_cancel a) (set_status cid Delivered (calls s))) (a_new a) k ltac:(rewrite table_length; exact Hge)) as [E|E];
        rewrite E in Hst; discriminate.
    + assert (Hst' : st_of (calls s) k = Some (Replied (YGen g))).
      { unfold st_of in *. rewrite <- (Other j1 y1 Hn1 Hy1' k ltac:(rewrite Hpc; left; reflexivity)). exact Hst. }
      destruct (Lcs j2 y2 Hy2) as [(-> & ->)|(Hn2 & Hy2')]; cbn [set_pc l_pc] in *.
      * destruct (Hpd g0 Hg0) as [Ho|Ho].
        -- exact (ni_t3 s HN j1 i y1 x k a0 am mf md g g0 Hy1' Hx Hpc Hst' Ho).
        -- exfalso. apply Hn1. exact (proj1 (att_unique s j1 i y1 x HU Hy1' Hx ltac:(rewrite Hpc; reflexivity) (att_tok_attached _ _ Ho))).
      * exact (ni_t3 s HN j1 j2 y1 y2 k a0 am mf md g g0 Hy1' Hy2' Hpc Hst' Hg0).
  - rewrite Hnd. exact (ni_wa s HN).
  - rewrite Hnd. exact (ni_ng s HN).
  - (* ni_r *)
    intros k cl y Hk Hrep. rewrite Hcalls in Hk. unfold tbl in Hk.
    destruct (Nat.lt_ge_cases k (length (calls s))) as [Hlt|Hge].
    + rewrite nth_error_app1 in Hk by (rewrite table_length; exact Hlt).
      destruct (cancel_calls_spec _ _ _ _ Hk) as (cl1 & H1 & Hr1 & _ & Hst1).
      destruct (nth_set_status _ _ _ _ _ H1) as (cl0 & H0 & Hr0 & Hne & Heq).
      destruct Hst1 as [E|E]; [|congruence].
      destruct (Nat.eq_dec k cid) as [->|Hkc]; [rewrite (Heq eq_refl) in E; congruence|].
      rewrite (Hne Hkc) in *. rewrite Hr1.
      assert (Hold : typed_reply s k (c_rpc cl0) y) by (apply (ni_r s HN k cl0 y H0); congruence).
      unfold typed_reply in *. destruct strict; [exact Hold|].
      intros (j & z & a0 & g0 & w & Hz & Hp & Hin). apply Hold.
      destruct (Lcs j z Hz) as [(-> & ->)|(Hnj & Hz')].
      * cbn [set_pc l_pc] in Hp, Hin. destruct (Hpw a0 g0 w k Hp ltac:(rewrite Hp in Hin; rewrite Hp; exact Hin) Hlt) as (w0 & Hold0 & Hin0).
        exists i, x, a0, g0, w0. rewrite Hold0 in *. auto.
      * exists j, z, a0, g0, w. auto.
    + rewrite nth_error_app2 in Hk by (rewrite table_length; exact Hge). destruct (nth_mk_calls _ _ _ Hk) as (q & _ & ->). discriminate.
Qed.

(* ---------- the select! ---------- *)
Lemma st_of_new0 cs q rest : st_of (cs ++ mk_calls (q :: rest)) (length cs) = Some Unprocessed.
Proof. unfold st_of. rewrite nth_error_app2 by lia. rewrite Nat.sub_diag. reflexivity. Qed.

Lemma nth_new0 cs q rest : nth_error (cs ++ mk_calls (q :: rest)) (length cs) = Some {| c_rpc := q; c_st := Unprocessed |}.
Proof. rewrite nth_error_app2 by lia. rewrite Nat.sub_diag. reflexivity. Qed.

Lemma select_poll_node_ok c li n cs base hgt tnow d e sel na :
  base = length cs -> all_failed (parts n) ->
  let a := select_poll c li base hgt tnow d e sel na in
  lc_ok n (cancel_calls (a_cancel a) cs ++ mk_calls (a_new a)) (a_pc a) /\ att_tok (a_pc a) = None /\ det_tok (a_pc a) = None /\
  (forall k a0 am mf md, a_pc a = PAdd1 k a0 am mf md -> k = base).
Proof.
  intros Hb Haf. unfold select_poll. destruct e as [en|]; [|cbn; repeat split; auto; intros; discriminate].
  assert (GP : forall e0, let a := go_pay c li base hgt tnow (Some e0) na in
     lc_ok n (cancel_calls (a_cancel a) cs ++ mk_calls (a_new a)) (a_pc a) /\ att_tok (a_pc a) = None /\ det_tok (a_pc a) = None /\
     (forall k a0 am mf md, a_pc a = PAdd1 k a0 am mf md -> k = base)).
  { intros e0. unfold go_pay. cbn [a_pc a_cancel a_new cancel_calls fold_left lc_ok att_tok det_tok].
    split; [split; [exact Haf|intros g Hst; subst base; rewrite st_of_new0 in Hst; discriminate]|].
    split; [reflexivity|]. split; [reflexivity|]. intros k a0 am mf md H. inversion H. reflexivity. }
  assert (DR : forall e0 r, let a := do_resolve e0 r PEnd [] [] [] na in
     lc_ok n (cancel_calls (a_cancel a) cs ++ mk_calls (a_new a)) (a_pc a) /\ att_tok (a_pc a) = None /\ det_tok (a_pc a) = None /\
     (forall k a0 am mf md, a_pc a = PAdd1 k a0 am mf md -> k = base)).
  { intros e0 r. unfold do_resolve. destruct e0; cbn; repeat split; auto; intros; discriminate. }
  destruct (rdy_q en); destruct (fail_q en) as [r|].
  - destruct sel; [apply GP|apply DR].
  - apply GP.
  - apply DR.
  - cbn. repeat split; auto. intros; discriminate.
Qed.

Lemma enter_select_node_ok c li n cs base hgt tnow d e sel na :
  base = length cs -> all_failed (parts n) ->
  let a := enter_select c li base hgt tnow d e sel na in
  lc_ok n (cancel_calls (a_cancel a) cs ++ mk_calls (a_new a)) (a_pc a) /\ att_tok (a_pc a) = None /\ det_tok (a_pc a) = None /\
  (forall k a0 am mf md, a_pc a = PAdd1 k a0 am mf md -> k = base).
Proof.
  intros Hb Haf. unfold enter_select. destruct (d =? 0); [|apply select_poll_node_ok; assumption].
  unfold do_resolve. destruct e; cbn; repeat split; auto; intros; discriminate.
Qed.

(* ---------- typed replies never make wait_payment fail ---------- *)
Lemma wait_no_err c li cs kk base w cid y cl cn :
  pc_calls_ok c li cs (PWait kk w) -> nth_error cs cid = Some cl -> reply_ok (c_rpc cl) y ->
  wait_deliver base w cid y = Some (WFin WErr cn) -> False.
Proof.
  intros Hok Hcl Hy Hw. destruct w as [k|k l|aw]; cbn [pc_calls_ok wait_deliver] in *.
  - destruct (Nat.eqb k cid) eqn:E; cbn in Hw; [|discriminate]. apply Nat.eqb_eq in E. subst k.
    rewrite (has_call_rpc _ _ _ _ Hok Hcl) in Hy. destruct Hy as (l & ->). discriminate.
  - destruct (Nat.eqb k cid) eqn:E; cbn in Hw; [|discriminate]. apply Nat.eqb_eq in E. subst k.
    rewrite (has_call_rpc _ _ _ _ Hok Hcl) in Hy. destruct Hy as (l0 & ->). destruct l0; [destruct l|]; discriminate.
  - destruct (existsb (fun x => Nat.eqb (snd x) cid) aw) eqn:E; cbn in Hw; [|discriminate].
    apply existsb_exists in E as ((pid & c0) & Hin & Hc). cbn in Hc. apply Nat.eqb_eq in Hc. subst c0.
    rewrite (has_call_rpc _ _ _ _ (Hok pid cid Hin) Hcl) in Hy. destruct Hy as [(p & ->)| ->].
    + discriminate.
    + destruct (filter _ aw); discriminate.
Qed.

(* ---------- every shape of a lifecycle step establishes what the next pc knows ---------- *)
Lemma wait_start_ok n cs cid :
  wait_inv (wproj n (cancel_calls [] (set_status cid Delivered cs) ++ mk_calls [QListPend]) (WListP (length cs))) (WListP (length cs)).
Proof.
  cbn [wait_inv wproj ps_calls cancel_calls fold_left]. exists Unprocessed. split; [|exact I].
  rewrite <- (set_status_length cid Delivered cs). apply nth_new0.
Qed.

Definition shape_goal (n : node) (cs : list call) (cid : nat) (old : pc) (sh : lres) : Prop :=
  match sh with
  | LKeep p' new _ cn | LResolve _ p' new cn =>
      lc_ok n (cancel_calls cn (set_status cid Delivered cs) ++ mk_calls new) p' /\
      prov_att cs old p' /\ prov_det old p' /\ (forall k a am mf md, p' <> PAdd1 k a am mf md) /\ prov_wait cs old p'
  | LSelect _ => all_failed (parts n)
  end.

Ltac fin4 := split; [intros; discriminate|intros ? ? ? ? HH; discriminate HH].
Ltac triv_target :=
  split; [exact I|split; [intros ? HH; discriminate HH|split; [intros ? HH; discriminate HH|fin4]]].

Lemma shape_node_ok c s i x cid cl y sh :
  InvU s -> InvC c s -> InvO s -> NInv s ->
  nth_error (lcs (pl s)) i = Some x -> nth_error (calls s) cid = Some cl -> c_st cl = Replied y ->
  lc_shape c (l_info x) (length (calls s)) (now s) (l_pc x) cid y = Some sh ->
  shape_goal (nd s) (calls s) cid (l_pc x) sh.
Proof.
  intros HU HC HO HN Hx Hcl Hrep Hsh.
  assert (Hst : st_of (calls s) cid = Some (Replied y)) by (rewrite (st_of_nth _ _ _ Hcl), Hrep; reflexivity).
  pose proof (ni_lc s HN i x Hx) as Hlc. pose proof (ic_typed c s HC i x Hx) as Hty. pose proof (ni_r s HN cid cl y Hcl Hrep) as Hry.
  assert (Hcin : In cid (awaits (l_pc x))).
  { assert (E : lc_deliver c (l_info x) (length (calls s)) (height s) (now s) (l_pc x) cid y true (entry_ (pl s)) (next_att (pl s)) <> None) by (rewrite lc_deliver_shape, Hsh; discriminate).
    destruct (lc_deliver c (l_info x) (length (calls s)) (height s) (now s) (l_pc x) cid y true (entry_ (pl s)) (next_att (pl s))) eqn:E2; [|congruence].
    exact (lc_deliver_awaits _ _ _ _ _ _ _ _ _ _ _ _ E2). }
  assert (NP : attached (l_pc x) = true -> (forall k a g, l_pc x <> PPay k a g) -> payrun (nd s) = 0)
    by (intros Ax Hnp; exact (proj1 (not_paying c s i x HU HC HO HN Hx Ax Hnp))).
  assert (NN : forall w, attached (l_pc x) = true -> (forall k a g, l_pc x <> PPay k a g) -> no_new (wproj (nd s) (calls s) w))
    by (intros w Ax Hnp; exact (no_new_of c s i x w HU HC HO HN Hx Ax Hnp)).
  destruct (l_pc x) as [k1|kk w|k1 a g t|k1 a g t|d|k1 a am mf md|k1 a g am mf md|k1 a g|k1 a pr|k1 a|k1 a g|k1 a g| |] eqn:Hp;
    unfold lc_shape in Hsh; try discriminate;
    try (destruct (Nat.eqb k1 cid) eqn:E; cbn [negb] in Hsh; [apply Nat.eqb_eq in E; subst k1|discriminate]);
    cbn [lc_ok pc_calls_ok] in Hlc, Hty.
  - (* PFetch: any reply — typed, an injected error, an unparsable record *)
    destruct y as [[[[|a t|pr|] g]|]| | | | | | | |]; inversion Hsh; subst sh; cbn [shape_goal]; try triv_target.
    + exact (Hlc _ Hst I).
    + split; [split; [apply wait_start_ok|exact I]|]. split; [intros ? HH; discriminate HH|]. split; [intros ? HH; discriminate HH|fin4].
    + exact (Hlc _ Hst I).
  - (* PWait *)
    destruct Hlc as (Hw & Htok).
    assert (Hnn : no_new (wproj (nd s) (calls s) w)) by (apply NN; [reflexivity|intros; discriminate]).
    assert (Hcl' : nth_error (ps_calls (wproj (nd s) (calls s) w)) cid = Some {| c_rpc := c_rpc cl; c_st := Replied y |})
      by (cbn [wproj ps_calls]; rewrite Hcl; destruct cl; cbn in *; subst; reflexivity).
    pose proof (deliver_go (wproj (nd s) (calls s) w) w cid y (c_rpc cl) SWait (or_introl eq_refl) eq_refl Hnn Hw Hcl') as HP.
    unfold go_result in HP. cbn [wproj ps_calls ps_nd] in HP.
    destruct (wait_deliver (length (calls s)) w cid y) as [[w' nw|r cn0]|] eqn:Ew; [| |discriminate].
    + inversion Hsh; subst sh. cbn [shape_goal]. unfold PInv in HP. cbn [ps_st] in HP. destruct HP as (_ & HW).
      split; [split; [cbn [cancel_calls fold_left]; exact HW|exact Htok]|].
      split; [intros g0 Hg0; left; destruct kk; exact Hg0|]. split; [intros ? HH; discriminate HH|].
      split; [intros; discriminate|]. intros a0 g0 w0 k0 HH Hin0 Hlt0. inversion HH; subst kk w0. exists w. split; [reflexivity|].
      destruct (wait_deliver_awaits _ _ _ _ _ _ Ew (AfterPay a0 g0) k0 Hin0) as [Hge|(A & _)]; [lia|exact A].
    + destruct r as [pr| |].
      * inversion Hsh; subst sh. unfold shape_succeed. cbn [shape_goal]. triv_target.
      * unfold PInv in HP. cbn [ps_st res_of_wait] in HP. destruct HP as (_ & Haf). cbn [ps_nd] in Haf.
        destruct kk as [a g t|a g]; inversion Hsh; subst sh; unfold shape_pay_failed; cbn [shape_goal lc_ok].
        -- split; [exact Haf|]. split; [intros ? HH; discriminate HH|]. split; [intros ? HH; discriminate HH|fin4].
        -- split; [split; [exact Htok|intros _; split; [exact Haf|exact (proj1 Hnn)]]|].
           split; [intros ? HH; discriminate HH|]. split; [intros g0 Hg0; right; exact Hg0|fin4].
      * (* an error inside the wait: on the restart path the lifecycle panics (KF-A) and touches nothing; inside pay() it cannot happen *)
        destruct kk as [a g t|a g]; inversion Hsh; subst sh.
        -- cbn [shape_goal]. triv_target.
        -- exfalso. assert (Hry' : reply_ok (c_rpc cl) y).
           { unfold typed_reply in Hry. destruct strict; [exact Hry|]. apply Hry. exists i, x, a, g, w. rewrite Hp. auto. }
           exact (wait_no_err c (l_info x) (calls s) (AfterPay a g) _ w cid y cl cn0 Hty Hcl Hry' Ew).
  - (* PMarkF1 *)
    destruct y; inversion Hsh; subst sh; cbn [shape_goal]; try triv_target.
    split; [exact Hlc|]. split; [intros ? HH; discriminate HH|]. split; [intros ? HH; discriminate HH|fin4].
  - (* PMarkF2 *)
    destruct y; inversion Hsh; subst sh; cbn [shape_goal]; try triv_target. exact Hlc.
  - (* PAdd1 *)
    destruct Hlc as (Haf & Hg).
    destruct y; inversion Hsh; subst sh; cbn [shape_goal]; try triv_target.
    destruct (Hg _ Hst) as (T & H). split; [cbn [lc_ok]; auto|].
    split; [intros g1 Hg1; cbn in Hg1; inversion Hg1; subst g1; right; eauto 10|]. split; [intros ? HH; discriminate HH|fin4].
  - (* PAdd2 *)
    destruct Hlc as (Haf & Hh & Ht).
    destruct y; inversion Hsh; subst sh; cbn [shape_goal]; try triv_target.
    split.
    + cbn [lc_ok cancel_calls fold_left]. split; [exact Ht|].
      rewrite <- (set_status_length cid Delivered (calls s)). rewrite st_of_new0. split; [split; [exact Haf|]|exact Hh].
      apply NP; [reflexivity|intros; discriminate].
    + split; [intros g1 Hg1; left; exact Hg1|]. split; [intros ? HH; discriminate HH|fin4].
  - (* PPay *)
    destruct Hlc as (Ht & Hm). rewrite Hst in Hm. destruct Hm as (Hp0 & Hy).
    destruct (pay_reply y) as [pr| |] eqn:Epr; inversion Hsh; subst sh.
    + unfold shape_succeed. cbn [shape_goal]. triv_target.
    + assert (y = YPay PayFailed) by (destruct y as [| | | | | | |[]|]; try discriminate; reflexivity). subst y.
      unfold shape_pay_failed. cbn [shape_goal lc_ok].
      split; [split; [exact Ht|intros _; split; [exact Hy|exact Hp0]]|].
      split; [intros ? HH; discriminate HH|]. split; [intros g0 Hg0; right; exact Hg0|fin4].
    + cbn [shape_goal wait_start fst snd]. split; [split; [apply wait_start_ok|exact Ht]|].
      split; [intros g1 Hg1; left; exact Hg1|]. split; [intros ? HH; discriminate HH|].
      split; [intros; discriminate|]. intros a0 g0 w0 k0 HH Hin0 Hlt0. inversion HH; subst. cbn [awaits] in Hin0. destruct Hin0 as [<-|[]]. lia.
  - (* PMS1 *) destruct y; inversion Hsh; subst sh; cbn [shape_goal]; triv_target.
  - (* PMS2 *) inversion Hsh; subst sh; cbn [shape_goal]; triv_target.
  - (* PMFp1 *)
    destruct y; inversion Hsh; subst sh; cbn [shape_goal]; try triv_target.
    split; [exact Hlc|]. split; [intros ? HH; discriminate HH|]. split; [intros g0 Hg0; left; exact Hg0|fin4].
  - (* PMFp2 *) inversion Hsh; subst sh; cbn [shape_goal]; triv_target.
Qed.

Lemma typed_reply_mono s s' k q y : (pay_wait_call s' k -> pay_wait_call s k) -> typed_reply s k q y -> typed_reply s' k q y.
Proof. unfold typed_reply. destruct strict; auto. Qed.

Lemma typed_same s s' k q y : lcs (pl s') = lcs (pl s) -> typed_reply s k q y -> typed_reply s' k q y.
Proof. intros Hl. apply typed_reply_mono. unfold pay_wait_call. rewrite Hl. auto. Qed.
Lemma typed_nonread s k q y : is_read q = false -> typed_reply s k q y.
Proof. unfold typed_reply. destruct q; try discriminate; destruct strict; cbn; auto. Qed.
Lemma typed_of_ok s k q y : reply_ok q y -> typed_reply s k q y.
Proof. unfold typed_reply. destruct strict; auto. Qed.

(* ---------- NInv only looks at the node, the lifecycles and the call table ---------- *)
Lemma NInv_irrel s s' : nd s' = nd s -> lcs (pl s') = lcs (pl s) -> calls s' = calls s -> NInv s -> NInv s'.
Proof. intros Hn Hl Hc [A B C D E F G]. constructor; unfold typed_reply, pay_wait_call in *; rewrite ?Hn, ?Hl, ?Hc; assumption. Qed.
Lemma InvC_irrel c s s' : lcs (pl s') = lcs (pl s) -> calls s' = calls s -> InvC c s -> InvC c s'.
Proof. intros Hl Hc [A B]. constructor; rewrite ?Hl, ?Hc; assumption. Qed.
Lemma InvO_irrel s s' : lcs (pl s') = lcs (pl s) -> calls s' = calls s -> InvO s -> InvO s'.
Proof. intros Hl Hc H. unfold InvO. rewrite Hl, Hc. exact H. Qed.

Lemma NInv_spawn c s h e1 : InvC c s -> NInv s -> NInv (spawn s h e1).
Proof.
  intros HC HN. pose proof HC as [Ht _].
  assert (Old : forall i x, nth_error (lcs (pl s)) i = Some x -> forall k, In k (awaits (l_pc x)) -> nth_error (calls s ++ mk_calls [QListState]) k = nth_error (calls s) k).
  { intros i x Hx k Hk. apply nth_error_app1. exact (pc_calls_ok_awaits_lt c _ _ _ (Ht i x Hx) k Hk). }
  assert (OldSt : forall i x k, nth_error (lcs (pl s)) i = Some x -> In k (awaits (l_pc x)) -> st_of (calls s ++ mk_calls [QListState]) k = st_of (calls s) k).
  { intros i x k Hx Hk. unfold st_of. rewrite (Old i x Hx k Hk). reflexivity. }
  constructor; cbn [spawn nd calls].
  - intros i x Hx. destruct (spawn_lcs s h e1 i x Hx) as [(Hx' & _)|(_ & Hp)].
    + apply (lc_ok_ext (nd s) (nd s) (calls s)); auto. exact (Old i x Hx'). exact (ni_lc s HN i x Hx').
    + rewrite Hp. cbn [lc_ok]. intros v Hst. rewrite st_of_new0 in Hst. discriminate.
  - intros Hp. destruct (ni_pay s HN Hp) as (j & y & k & a & g & Hy & Hpc & Hst). exists j, y, k, a, g.
    split; [cbn [spawn pl lcs]; apply nth_app_l; exact Hy|]. split; [exact Hpc|].
    rewrite (OldSt j y k Hy ltac:(rewrite Hpc; left; reflexivity)). exact Hst.
  - intros i j x y g g0 Hx Hy Hg Hg0.
    destruct (spawn_lcs s h e1 i x Hx) as [(Hx' & _)|(_ & Hp)]; [|rewrite Hp in Hg; discriminate].
    destruct (spawn_lcs s h e1 j y Hy) as [(Hy' & _)|(_ & Hp)]; [|rewrite Hp in Hg0; discriminate].
    exact (ni_t2 s HN i j x y g g0 Hx' Hy' Hg Hg0).
  - intros i j x y k a am mf md g g0 Hx Hy Hpc Hst Hg0.
    destruct (spawn_lcs s h e1 i x Hx) as [(Hx' & _)|(_ & Hp)]; [|rewrite Hp in Hpc; discriminate].
    destruct (spawn_lcs s h e1 j y Hy) as [(Hy' & _)|(_ & Hp)]; [|rewrite Hp in Hg0; discriminate].
    rewrite (OldSt i x k Hx' ltac:(rewrite Hpc; left; reflexivity)) in Hst.
    exact (ni_t3 s HN i j x y k a am mf md g g0 Hx' Hy' Hpc Hst Hg0).
  - exact (ni_wa s HN).
  - exact (ni_ng s HN).
  - intros k cl y Hk Hrep. destruct (Nat.lt_ge_cases k (length (calls s))) as [Hlt|Hge].
    + rewrite nth_error_app1 in Hk by exact Hlt. apply (typed_reply_mono s); [|exact (ni_r s HN k cl y Hk Hrep)].
      intros (j & z & a0 & g0 & w & Hz & Hp & Hin). destruct (spawn_lcs s h e1 j z Hz) as [(Hz' & _)|(_ & Hp')]; [exists j, z, a0, g0, w; auto|congruence].
    + rewrite nth_error_app2 in Hk by exact Hge. destruct (nth_mk_calls _ _ _ Hk) as (q & _ & ->). discriminate.
Qed.

Lemma select_poll_not_wait c li base hgt tnow d e sel na kk w : a_pc (select_poll c li base hgt tnow d e sel na) <> PWait kk w.
Proof.
  unfold select_poll, go_pay, do_resolve, stay. destruct e as [en|]; [|discriminate].
  destruct (rdy_q en); destruct (fail_q en); try destruct sel; discriminate.
Qed.
Lemma enter_select_not_wait c li base hgt tnow d e sel na kk w : a_pc (enter_select c li base hgt tnow d e sel na) <> PWait kk w.
Proof. unfold enter_select. destruct (d =? 0); [unfold do_resolve; destruct e; discriminate|apply select_poll_not_wait]. Qed.

(* ---------- EvHtlc ---------- *)
Lemma NInv_poll c s1 i x d e sel na :
  InvU s1 -> InvC c s1 -> InvO s1 -> NInv s1 ->
  nth_error (lcs (pl s1)) i = Some x -> l_pc x = PSelect d ->
  NInv (fst (apply_adv s1 i (select_poll c (l_info x) (length (calls s1)) (height s1) (now s1) d e sel na))).
Proof.
  intros HU HC HO HN Hx Hp.
  pose proof (ni_lc s1 HN i x Hx) as Hlc. rewrite Hp in Hlc. cbn [lc_ok] in Hlc.
  pose proof (select_poll_node_ok c (l_info x) (nd s1) (calls s1) (length (calls s1)) (height s1) (now s1) d e sel na eq_refl Hlc) as (T1 & T2 & T3 & T4).
  pose proof (select_poll_typed c (l_info x) (calls s1) (length (calls s1)) (height s1) (now s1) d e sel na eq_refl) as (_ & _ & T5).
  match goal with |- NInv (fst (apply_adv ?s ?i ?aa)) => pose proof (NInv_apply c s i aa x (length (calls s1)) HU HC HO HN Hx) as G end.
  rewrite set_status_oob in G by lia.
  assert (E : with_calls s1 (calls s1) = s1) by (destruct s1; reflexivity). rewrite E in G.
  apply G.
  - right. split; [lia|rewrite Hp; reflexivity].
  - rewrite T5. intros k [].
  - exact T1.
  - intros g Hg. rewrite T2 in Hg. discriminate.
  - intros g Hg. rewrite T3 in Hg. discriminate.
  - intros k a am mf md Hpc. rewrite (T4 _ _ _ _ _ Hpc). lia.
  - intros a0 g0 w0 k0 HH. exfalso. exact (select_poll_not_wait _ _ _ _ _ _ _ _ _ _ _ HH).
Qed.

Lemma NInv_htlc c s h : InvC c s -> NInv s -> NInv (fst (step c s (EvHtlc h))).
Proof.
  intros HC HN. cbn [step].
  destruct (entry_ (pl s)) as [e|] eqn:He.
  - apply (NInv_irrel s); auto.
  - exact (NInv_spawn c s h (e_handle c (new_entry h) h) HC HN).
Qed.

Lemma NInv_pollev c s sel : InvU s -> InvC c s -> InvO s -> NInv s -> NInv (fst (step c s (EvPoll sel))).
Proof.
  intros HU HC HO HN. cbn [step].
  destruct (find_select 0 (lcs (pl s))) as [[[i d] li]|] eqn:Hf; [|exact HN].
  destruct (find_select_spec _ _ _ _ _ Hf) as (x & Hx & Hp & Hli & _). rewrite Nat.sub_0_r in Hx. subst li.
  exact (NInv_poll c s i x d (entry_ (pl s)) sel (next_att (pl s)) HU HC HO HN Hx Hp).
Qed.

(* ---------- EvDeliver ---------- *)
Lemma NInv_deliver c s cid sel : InvU s -> InvC c s -> InvO s -> NInv s -> NInv (fst (step c s (EvDeliver cid sel))).
Proof.
  intros HU HC HO HN. cbn [step].
  destruct (nth_error (calls s) cid) as [cl|] eqn:Hcl; [|exact HN]. destruct (c_st cl) eqn:Hst; try exact HN.
  destruct (find_owner c 0 (lcs (pl s)) cid y sel (entry_ (pl s)) (length (calls s)) (height s) (now s) (next_att (pl s))) as [[i a]|] eqn:Hf.
  2:{ exfalso. destruct (HO cid cl Hcl ltac:(rewrite Hst; right; right; eauto)) as (j & z & Hz & Hin).
      exact (find_owner_awaited c cid y sel _ _ _ _ _ _ 0%nat j z Hz Hin Hf). }
  destruct (find_owner_spec _ _ _ _ _ _ _ _ _ _ _ _ _ Hf) as (x & Hx & _ & Hdl). rewrite Nat.sub_0_r in Hx.
  pose proof (lc_deliver_awaits _ _ _ _ _ _ _ _ _ _ _ _ Hdl) as Hcidx.
  rewrite lc_deliver_shape in Hdl. destruct (lc_shape c (l_info x) (length (calls s)) (now s) (l_pc x) cid y) as [sh|] eqn:Hsh; [|discriminate].
  cbn [option_map] in Hdl. inversion Hdl; subst a; clear Hdl.
  pose proof (shape_node_ok c s i x cid cl y sh HU HC HO HN Hx Hcl Hst Hsh) as Hg.
  apply (NInv_apply c s i _ x cid HU HC HO HN Hx).
  - left. split; [exact Hcidx|eauto].
  - destruct sh as [p' new out cancel|r p' new cancel|d]; cbn [adv_of a_cancel].
    + exact (proj2 (lc_shape_awaits _ _ _ _ _ _ _ _ _ _ Hsh eq_refl)).
    + unfold do_resolve. destruct (entry_ (pl s)); cbn [a_cancel]; exact (proj2 (lc_shape_awaits _ _ _ _ _ _ _ _ _ _ Hsh eq_refl)).
    + pose proof (enter_select_typed c (l_info x) (calls s) (length (calls s)) (height s) (now s) d (entry_ (pl s)) sel (next_att (pl s)) eq_refl) as (_ & _ & T3).
      rewrite T3. intros k [].
  - destruct sh as [p' new out cancel|r p' new cancel|d]; cbn [adv_of a_pc a_new a_cancel]; cbn [shape_goal] in Hg.
    + exact (proj1 Hg).
    + unfold do_resolve. destruct (entry_ (pl s)); cbn [a_pc a_new a_cancel]; [exact (proj1 Hg)|exact I].
    + exact (proj1 (enter_select_node_ok c (l_info x) (nd s) (set_status cid Delivered (calls s)) (length (calls s)) (height s) (now s) d (entry_ (pl s)) sel (next_att (pl s))
                      ltac:(rewrite set_status_length; reflexivity) Hg)).
  - destruct sh as [p' new out cancel|r p' new cancel|d]; cbn [adv_of a_pc]; cbn [shape_goal] in Hg.
    + exact (proj1 (proj2 Hg)).
    + unfold do_resolve. destruct (entry_ (pl s)); cbn [a_pc]; [exact (proj1 (proj2 Hg))|intros ? HH; discriminate HH].
    + pose proof (enter_select_node_ok c (l_info x) (nd s) (calls s) (length (calls s)) (height s) (now s) d (entry_ (pl s)) sel (next_att (pl s)) eq_refl Hg) as (_ & T2 & _).
      intros g Hg0. rewrite T2 in Hg0. discriminate.
  - destruct sh as [p' new out cancel|r p' new cancel|d]; cbn [adv_of a_pc]; cbn [shape_goal] in Hg.
    + exact (proj1 (proj2 (proj2 Hg))).
    + unfold do_resolve. destruct (entry_ (pl s)); cbn [a_pc]; [exact (proj1 (proj2 (proj2 Hg)))|intros ? HH; discriminate HH].
    + pose proof (enter_select_node_ok c (l_info x) (nd s) (calls s) (length (calls s)) (height s) (now s) d (entry_ (pl s)) sel (next_att (pl s)) eq_refl Hg) as (_ & _ & T3 & _).
      intros g Hg0. rewrite T3 in Hg0. discriminate.
  - destruct sh as [p' new out cancel|r p' new cancel|d]; cbn [adv_of a_pc]; cbn [shape_goal] in Hg.
    + intros k a am mf md Hpc. exfalso. exact (proj1 (proj2 (proj2 (proj2 Hg))) _ _ _ _ _ Hpc).
    + unfold do_resolve. destruct (entry_ (pl s)); cbn [a_pc]; intros k a am mf md Hpc; [exfalso; exact (proj1 (proj2 (proj2 (proj2 Hg))) _ _ _ _ _ Hpc)|discriminate].
    + pose proof (enter_select_node_ok c (l_info x) (nd s) (calls s) (length (calls s)) (height s) (now s) d (entry_ (pl s)) sel (next_att (pl s)) eq_refl Hg) as (_ & _ & _ & T4).
      intros k a am mf md Hpc. rewrite (T4 _ _ _ _ _ Hpc). lia.
  - destruct sh as [p' new out cancel|r p' new cancel|d]; cbn [adv_of a_pc]; cbn [shape_goal] in Hg.
    + exact (proj2 (proj2 (proj2 (proj2 Hg)))).
    + unfold do_resolve. destruct (entry_ (pl s)); cbn [a_pc]; [exact (proj2 (proj2 (proj2 (proj2 Hg))))|intros ? ? ? ? HH; discriminate HH].
    + intros a0 g0 w0 k0 HH. exfalso. exact (enter_select_not_wait _ _ _ _ _ _ _ _ _ _ _ HH).
Qed.

(* ---------- parts and the pay command ---------- *)
Lemma all_failed_not_pend ps pid : all_failed ps -> nth_error ps pid = Some PPend -> False.
Proof. intros H Hp. specialize (H _ _ Hp). discriminate. Qed.

Lemma lc_ok_part n cs p pid st :
  nth_error (parts n) pid = Some PPend -> st <> PPend -> lc_ok n cs p -> lc_ok (set_parts n (upd pid st (parts n))) cs p.
Proof.
  intros Hp Hst.
  assert (X : all_failed (parts n) -> False) by (intros H; exact (all_failed_not_pend _ _ H Hp)).
  destruct p as [k1|kk w|k1 a g t|k1 a g t|d|k1 a am mf md|k1 a g am mf md|k1 a g|k1 a pr|k1 a|k1 a g|k1 a g| |];
    cbn [lc_ok]; unfold tok, hot, gen_is, quiet; cbn [set_parts parts ds payrun]; auto; try (intros H; exfalso; tauto).
  - intros H v Hv Hf. exfalso. exact (X (H v Hv Hf)).
  - intros (Hw & Ht). split; [|exact Ht]. exact (wait_inv_part (wproj n cs w) w pid st Hp Hst Hw).
  - intros (Ht & Hm). split; [exact Ht|]. destruct (st_of cs k1) as [[| |y| | |]|]; auto; try (exfalso; tauto).
    destruct Hm as (H0 & Hy). split; [exact H0|]. destruct y; auto. destruct o; auto; [apply has_done_upd; assumption|exfalso; tauto].
  - intros (Ht & Hc). split; [exact Ht|]. intros E. exfalso. exact (X (proj1 (Hc E))).
  - intros (Ht & Hc). split; [exact Ht|]. intros E. exfalso. exact (X (proj1 (Hc E))).
Qed.

Lemma NInv_part c s pid st : NInv s -> NInv (fst (step c s (EvPart pid st))).
Proof.
  intros HN. cbn [step]. destruct (nth_error (parts (nd s)) pid) as [[| |]|] eqn:Hp; try exact HN.
  assert (G : st <> PPend -> NInv (with_nd s (set_parts (nd s) (upd pid st (parts (nd s)))))).
  { intros Hst. constructor; cbn [with_nd nd pl calls].
    - intros i x Hx. apply lc_ok_part; [exact Hp|exact Hst|exact (ni_lc s HN i x Hx)].
    - exact (ni_pay s HN).
    - exact (ni_t2 s HN).
    - exact (ni_t3 s HN).
    - intros H. apply (ni_wa s HN). destruct H as [(i & st0 & Hi & Hne)|H]; [|right; exact H]. left. cbn [set_parts parts] in Hi.
      destruct (nth_upd_cases _ _ _ _ _ Hi) as [[<- _]|[_ Hi']]; [exists pid, PPend; split; [exact Hp|discriminate]|exists i, st0; auto].
    - exact (ni_ng s HN).
    - intros k0 cl0 y0 Hk0 Hr0. exact (typed_same s _ k0 _ y0 eq_refl (ni_r s HN k0 cl0 y0 Hk0 Hr0)). }
  destruct st; [exact HN|apply G; discriminate|apply G; discriminate].
Qed.

(* while a pay command is outstanding, every other lifecycle is detached and its claim is vacuous *)
Lemma lc_ok_detached n n' cs cs' p :
  attached p = false -> ds n' = ds n -> (forall g0, det_tok p = Some g0 -> ~ gen_is n g0) -> lc_ok n cs p -> lc_ok n' cs' p.
Proof.
  intros Ap Hd Hg.
  destruct p as [k1|kk w|k1 a g t|k1 a g t|d|k1 a am mf md|k1 a g am mf md|k1 a g|k1 a pr|k1 a|k1 a g|k1 a g| |]; try discriminate; cbn [lc_ok]; auto;
    unfold tok, gen_is; rewrite Hd; intros (Ht & Hc); (split; [exact Ht|intros E; exfalso; exact (Hg g eq_refl E)]).
Qed.

Lemma paying_others s i x k a g :
  InvU s -> NInv s -> nth_error (lcs (pl s)) i = Some x -> l_pc x = PPay k a g ->
  forall j y, nth_error (lcs (pl s)) j = Some y -> j <> i ->
    attached (l_pc y) = false /\ forall g0, det_tok (l_pc y) = Some g0 -> ~ gen_is (nd s) g0.
Proof.
  intros HU HN Hx Hp j y Hy Hne.
  assert (Ay : attached (l_pc y) = false).
  { destruct (attached (l_pc y)) eqn:Ay; [|reflexivity]. exfalso. apply Hne.
    exact (proj1 (att_unique s j i y x HU Hy Hx Ay ltac:(rewrite Hp; reflexivity))). }
  split; [exact Ay|]. intros g0 Hg0 E.
  pose proof (ni_t2 s HN i j x y g g0 Hx Hy ltac:(rewrite Hp; reflexivity) Hg0) as Hlt.
  pose proof (ni_lc s HN i x Hx) as Hlc. rewrite Hp in Hlc. destruct Hlc as (Ht & _).
  unfold tok in Ht. unfold gen_is in E. destruct (ds (nd s)) as [[v cur]|]; [|exact E]. lia.
Qed.

Lemma running_pay_owner c s cid b am mf md rt :
  InvC c s -> InvO s -> nth_error (calls s) cid = Some {| c_rpc := QPay b am mf md rt; c_st := Running |} ->
  exists i x a g, nth_error (lcs (pl s)) i = Some x /\ l_pc x = PPay cid a g.
Proof. intros HC HO Hcl. apply (live_pay_owner c s cid _ b am mf md rt HC HO Hcl eq_refl). right; left; reflexivity. Qed.

Lemma NInv_newpart c s cid : InvU s -> InvC c s -> InvO s -> NInv s -> NInv (fst (step c s (EvPayNewPart cid))).
Proof.
  intros HU HC HO HN. cbn [step].
  destruct (nth_error (calls s) cid) as [[q st]|] eqn:Hcl; [|exact HN]. destruct q; try exact HN. destruct st; try exact HN.
  destruct (running_pay_owner c s cid _ _ _ _ _ HC HO Hcl) as (i & x & a & g & Hx & Hp).
  pose proof (ni_lc s HN i x Hx) as Hlc. rewrite Hp in Hlc. cbn [lc_ok] in Hlc. rewrite (st_of_nth _ _ _ Hcl) in Hlc. cbn [c_st] in Hlc. destruct Hlc as (Ht & Hrun).
  constructor; cbn [fst with_nd nd pl calls].
  - intros j y Hy. destruct (Nat.eq_dec j i) as [->|Hne].
    + rewrite Hx in Hy. inversion Hy; subst y. rewrite Hp. cbn [lc_ok]. rewrite (st_of_nth _ _ _ Hcl). cbn [c_st]. split; [exact Ht|exact Hrun].
    + destruct (paying_others s i x cid a g HU HN Hx Hp j y Hy Hne) as (Ay & Hg).
      apply (lc_ok_detached (nd s) _ (calls s) (calls s) (l_pc y) Ay); [reflexivity|exact Hg|exact (ni_lc s HN j y Hy)].
  - exact (ni_pay s HN).
  - exact (ni_t2 s HN).
  - exact (ni_t3 s HN).
  - intros _. apply (ni_wa s HN). right. cbn [set_parts payrun] in *. lia.
  - exact (ni_ng s HN).
  - intros k0 cl0 y0 Hk0 Hr0. exact (typed_same s _ k0 _ y0 eq_refl (ni_r s HN k0 cl0 y0 Hk0 Hr0)).
Qed.

Lemma NInv_payfinish c s cid o : InvU s -> InvC c s -> InvO s -> NInv s -> ev_wf s (EvPayFinish cid o) -> NInv (fst (step c s (EvPayFinish cid o))).
Proof.
  intros HU HC HO HN Hwf. cbn [step].
  destruct (nth_error (calls s) cid) as [[q st]|] eqn:Hcl; [|exact HN]. destruct q; try exact HN. destruct st; try exact HN.
  destruct (running_pay_owner c s cid _ _ _ _ _ HC HO Hcl) as (i & x & a & g & Hx & Hp).
  pose proof (ni_lc s HN i x Hx) as Hlc. rewrite Hp in Hlc. cbn [lc_ok] in Hlc. rewrite (st_of_nth _ _ _ Hcl) in Hlc. cbn [c_st] in Hlc. destruct Hlc as (Ht & Hrun).
  pose proof HC as [_ Hd].
  assert (Others : forall j y, nth_error (lcs (pl s)) j = Some y -> j <> i -> ~ In cid (awaits (l_pc y))).
  { intros j y Hy Hne Hin. exact (Hd i j x y cid (not_eq_sym Hne) Hx Hy ltac:(rewrite Hp; left; reflexivity) Hin). }
  constructor; cbn [fst nd pl calls].
  - intros j y Hy. destruct (Nat.eq_dec j i) as [->|Hne].
    + rewrite Hx in Hy. inversion Hy; subst y. rewrite Hp. cbn [lc_ok]. split; [exact Ht|].
      rewrite (st_of_nth _ _ _ (nth_set_status_same _ _ _ _ Hcl)). cbn [c_st set_payrun payrun parts]. split; [lia|].
      destruct o; auto; exact Hwf.
    + destruct (paying_others s i x cid a g HU HN Hx Hp j y Hy Hne) as (Ay & Hg).
      apply (lc_ok_detached (nd s) _ (calls s) _ (l_pc y) Ay); [reflexivity|exact Hg|exact (ni_lc s HN j y Hy)].
  - cbn [set_payrun payrun]. intros H. exfalso. lia.
  - exact (ni_t2 s HN).
  - intros j1 j2 y1 y2 k a0 am0 mf0 md0 g1 g0 Hy1 Hy2 Hpc _ _. exfalso.
    assert (j1 = i) by exact (proj1 (att_unique s j1 i y1 x HU Hy1 Hx ltac:(rewrite Hpc; reflexivity) ltac:(rewrite Hp; reflexivity))).
    subst j1. rewrite Hx in Hy1. inversion Hy1; subst y1. congruence.
  - cbn [set_payrun payrun parts ds]. intros [H|H]; [|exfalso; lia]. apply (ni_wa s HN). left. exact H.
  - exact (ni_ng s HN).
  - intros k cl y Hk Hrep. destruct (nth_set_status _ _ _ _ _ Hk) as (cl0 & H0 & Hr & Hne & Heq).
    destruct (Nat.eq_dec k cid) as [->|Hkc].
    + rewrite Hcl in H0. inversion H0; subst cl0. rewrite Hr. apply typed_nonread; reflexivity.
    + rewrite (Hne Hkc) in *. exact (typed_same s _ k _ y eq_refl (ni_r s HN k cl0 y H0 Hrep)).
Qed.

(* ---------- timers, height, crash ---------- *)
Lemma NInv_tick c s dt : NInv s -> NInv (fst (step c s (EvTick dt))).
Proof.
  intros HN. cbn [step].
  destruct (fire_timers (lcs (pl s)) (entry_ (pl s)) (now s + dt)) as [[l' e'] o'] eqn:Hf. cbn [fst].
  assert (Back : forall i y, nth_error l' i = Some y -> exists x, nth_error (lcs (pl s)) i = Some x /\ (l_pc y = l_pc x \/ l_pc y = PEnd \/ l_pc y = PPanicked)).
  { intros i y Hy. destruct (fire_timers_pcs _ _ _ _ _ _ _ _ Hf Hy) as (x & Hx & _ & [H|(_ & [H|H])]); exists x; auto. }
  constructor; cbn [nd pl lcs calls].
  - intros i y Hy. destruct (Back i y Hy) as (x & Hx & [H|[H|H]]); rewrite H; [exact (ni_lc s HN i x Hx)|exact I|exact I].
  - intros Hp. destruct (ni_pay s HN Hp) as (j & x & k & a & g & Hx & Hpc & Hst).
    assert (Hj : (j < length l')%nat) by (rewrite (fire_timers_length _ _ _ _ _ _ Hf); apply nth_error_Some; congruence).
    destruct (nth_error l' j) as [y|] eqn:Hy; [|apply nth_error_None in Hy; lia].
    destruct (fire_timers_pcs _ _ _ _ _ _ _ _ Hf Hy) as (x0 & Hx0 & _ & Hpp). rewrite Hx in Hx0. inversion Hx0; subst x0.
    exists j, y, k, a, g. split; [exact Hy|]. split; [|exact Hst].
    destruct Hpp as [H|((d & Hd) & _)]; [congruence|congruence].
  - intros i j y1 y2 g g0 Hy1 Hy2 Hg Hg0.
    destruct (Back i y1 Hy1) as (x1 & Hx1 & [H1|[H1|H1]]); rewrite H1 in Hg; try discriminate.
    destruct (Back j y2 Hy2) as (x2 & Hx2 & [H2|[H2|H2]]); rewrite H2 in Hg0; try discriminate.
    exact (ni_t2 s HN i j x1 x2 g g0 Hx1 Hx2 Hg Hg0).
  - intros i j y1 y2 k a am mf md g g0 Hy1 Hy2 Hpc Hst Hg0.
    destruct (Back i y1 Hy1) as (x1 & Hx1 & [H1|[H1|H1]]); rewrite H1 in Hpc; try discriminate.
    destruct (Back j y2 Hy2) as (x2 & Hx2 & [H2|[H2|H2]]); rewrite H2 in Hg0; try discriminate.
    exact (ni_t3 s HN i j x1 x2 k a am mf md g g0 Hx1 Hx2 Hpc Hst Hg0).
  - exact (ni_wa s HN).
  - exact (ni_ng s HN).
  - intros k0 cl0 y0 Hk0 Hr0. apply (typed_reply_mono s); [|exact (ni_r s HN k0 cl0 y0 Hk0 Hr0)].
    intros (j & z & a0 & g0 & w & Hz & Hp & Hin). cbn [pl lcs] in Hz.
    destruct (Back j z Hz) as (x0 & Hx0 & [H|[H|H]]); [|congruence|congruence].
    exists j, x0, a0, g0, w. rewrite <- H. auto.
Qed.

Lemma NInv_crash c s : NInv s -> NInv (fst (step c s EvCrash)).
Proof.
  intros HN. cbn [step fst]. constructor; cbn [nd pl lcs calls set_payrun payrun parts ds].
  - intros [|i] x Hx; discriminate.
  - intros H. exfalso. lia.
  - intros [|i] j x y g g0 Hx; discriminate.
  - intros [|i] j x y k a am mf md g g0 Hx; discriminate.
  - intros [H|H]; [|exfalso; lia]. apply (ni_wa s HN). left. exact H.
  - exact (ni_ng s HN).
  - intros k cl y Hk Hrep. unfold kill_calls in Hk. rewrite nth_error_map in Hk. destruct (nth_error (calls s) k) as [cl0|]; [|discriminate].
    inversion Hk; subst cl. cbn in Hrep. destruct (c_st cl0); discriminate.
Qed.

(* ---------- EvProcess: what the node does with each rpc ---------- *)
Lemma node_exec_write_cases n m gg v f n' y :
  node_exec n (QWriteState m gg v) f = (n', y) ->
  (n' = n /\ y = Some YErr) \/
  (exists g', n' = set_ds n (Some (v, g')) /\ bump n g' /\ (y = Some (YGen g') \/ y = Some YErr) /\
              (forall g0, gg = Some g0 -> m = MustReplace -> gen_is n g0)).
Proof.
  unfold node_exec, bump, gen_is. destruct f; [| intros H; inversion H; left; auto |];
    destruct (ds n) as [[v0 cur]|] eqn:Ed; destruct m; cbn;
    try (destruct gg as [g1|]; [destruct (g1 =? cur) eqn:Eg; [apply N.eqb_eq in Eg; subst g1|]|]);
    intros H; inversion H; subst; auto;
    right; eexists; (split; [reflexivity|]); (split; [reflexivity|]); (split; [auto|]); intros g0 Hg0 Hm; inversion Hg0; try discriminate; auto.
Qed.

Lemma node_exec_att_cases n m a cm su am b f n' y :
  node_exec n (QWriteAtt m a cm su am b) f = (n', y) ->
  ds n' = ds n /\ parts n' = parts n /\ payrun n' = payrun n /\ (y = Some YUnit \/ y = Some YErr).
Proof.
  unfold node_exec. destruct f; [| intros H; inversion H; auto |]; destruct (mem_att a (atts n)), m; cbn; intros H; inversion H; subst; cbn; auto.
Qed.

Lemma node_exec_pay_cases n b am mf md rt f n' y :
  node_exec n (QPay b am mf md rt) f = (n', y) ->
  (n' = n /\ y = Some YErr) \/ (n' = set_payrun n (payrun n + 1) /\ y = None).
Proof. unfold node_exec. destruct f; intros H; inversion H; auto. Qed.

Definition reads_calls (p : pc) : bool :=
  match p with PFetch _ | PWait _ _ | PAdd1 _ _ _ _ _ | PPay _ _ _ => true | _ => false end.

Lemma lc_ok_nocall n n' cs cs' p :
  reads_calls p = false -> ds n' = ds n -> parts n' = parts n -> payrun n' = payrun n -> lc_ok n cs p -> lc_ok n' cs' p.
Proof.
  intros Hr Hd Hp Hy.
  destruct p as [k1|kk w|k1 a g t|k1 a g t|d|k1 a am mf md|k1 a g am mf md|k1 a g|k1 a pr|k1 a|k1 a g|k1 a g| |]; try discriminate;
    cbn [lc_ok]; unfold tok, hot, gen_is, quiet; rewrite ?Hd, ?Hp, ?Hy; auto.
Qed.

Lemma free_all_failed s : NInv s -> free_view (ds (nd s)) -> all_failed (parts (nd s)).
Proof.
  intros HN Hf i st Hi. destruct st; [exfalso| exfalso |reflexivity];
    (assert (Hh : hot (nd s)) by (apply (ni_wa s HN); left; exists i; eexists; split; [exact Hi|discriminate]);
     unfold hot in Hh; unfold free_view in Hf; destruct (ds (nd s)) as [[[] ?]|]; cbn in *; tauto).
Qed.

(* the owner of a call, by the call's rpc *)
Lemma owner_pc_by_rpc c s i x cid cl :
  InvC c s -> nth_error (lcs (pl s)) i = Some x -> In cid (awaits (l_pc x)) -> nth_error (calls s) cid = Some cl ->
  match c_rpc cl with
  | QListPend | QListDone | QWaitPart _ => exists kk w, l_pc x = PWait kk w
  | QWriteAtt _ _ _ _ _ _ => reads_calls (l_pc x) = false
  | _ => True
  end.
Proof.
  intros [Ht _] Hx Hin Hcl. specialize (Ht i x Hx).
  destruct (l_pc x) as [k1|kk w|k1 a g t|k1 a g t|d|k1 a am mf md|k1 a g am mf md|k1 a g|k1 a pr|k1 a|k1 a g|k1 a g| |];
    cbn [awaits] in Hin; try (destruct Hin; fail); cbn [pc_calls_ok] in Ht.
  - destruct Hin as [<-|[]]. rewrite (has_call_rpc _ _ _ _ Ht Hcl). exact I.
  - destruct (c_rpc cl) eqn:Er; eauto.
    exfalso. destruct w as [k1|k1 l|aw]; cbn [awaits] in Hin.
    + destruct Hin as [<-|[]]. rewrite (has_call_rpc _ _ _ _ Ht Hcl) in Er. discriminate.
    + destruct Hin as [<-|[]]. rewrite (has_call_rpc _ _ _ _ Ht Hcl) in Er. discriminate.
    + apply in_map_iff in Hin as ((pid & c0) & Hc & Hi). cbn in Hc. subst c0. rewrite (has_call_rpc _ _ _ _ (Ht pid cid Hi) Hcl) in Er. discriminate.
  - destruct Hin as [<-|[]]. rewrite (has_call_rpc _ _ _ _ Ht Hcl). reflexivity.
  - destruct Hin as [<-|[]]. rewrite (has_call_rpc _ _ _ _ Ht Hcl). exact I.
  - destruct Hin as [<-|[]]. destruct Ht as (t & Ht). rewrite (has_call_rpc _ _ _ _ Ht Hcl). exact I.
  - destruct Hin as [<-|[]]. rewrite (has_call_rpc _ _ _ _ Ht Hcl). reflexivity.
  - destruct Hin as [<-|[]]. destruct Ht as (am & mf & md & Ht). rewrite (has_call_rpc _ _ _ _ Ht Hcl). exact I.
  - destruct Hin as [<-|[]]. rewrite (has_call_rpc _ _ _ _ Ht Hcl). exact I.
  - destruct Hin as [<-|[]]. rewrite (has_call_rpc _ _ _ _ Ht Hcl). reflexivity.
  - destruct Hin as [<-|[]]. rewrite (has_call_rpc _ _ _ _ Ht Hcl). reflexivity.
  - destruct Hin as [<-|[]]. rewrite (has_call_rpc _ _ _ _ Ht Hcl). exact I.
Qed.

Lemma NInv_process_frame c s cid cl n' st' i x :
  InvC c s -> NInv s -> nth_error (calls s) cid = Some cl -> c_st cl = Unprocessed ->
  nth_error (lcs (pl s)) i = Some x -> In cid (awaits (l_pc x)) ->
  ds n' = ds (nd s) -> parts n' = parts (nd s) -> payrun n' = payrun (nd s) ->
  lc_ok n' (set_status cid st' (calls s)) (l_pc x) ->
  (forall g, st' <> Replied (YGen g)) -> st' <> Running -> (forall y, st' = Replied y -> typed_reply s cid (c_rpc cl) y) ->
  NInv {| nd := n'; pl := pl s; calls := set_status cid st' (calls s); now := now s; height := height s |}.
Proof.
  intros HC HN Hcl Hst Hx Hin Hd Hp Hr Hown Hng Hnr Hry. pose proof HC as [_ Hdis].
  assert (Others : forall j y, nth_error (lcs (pl s)) j = Some y -> j <> i -> ~ In cid (awaits (l_pc y))).
  { intros j y Hy Hne Hi. exact (Hdis i j x y cid (not_eq_sym Hne) Hx Hy Hin Hi). }
  assert (StO : forall k, k <> cid -> st_of (set_status cid st' (calls s)) k = st_of (calls s) k).
  { intros k Hk. unfold st_of. rewrite nth_set_status_other by congruence. reflexivity. }
  assert (StC : st_of (set_status cid st' (calls s)) cid = Some st').
  { rewrite (st_of_nth _ _ _ (nth_set_status_same _ _ _ _ Hcl)). reflexivity. }
  constructor; cbn [nd pl calls].
  - intros j y Hy. destruct (Nat.eq_dec j i) as [->|Hne].
    + rewrite Hx in Hy. inversion Hy; subst y. exact Hown.
    + apply (lc_ok_ext (nd s) n' (calls s)); auto; [|exact (ni_lc s HN j y Hy)].
      intros k Hk. apply nth_set_status_other. intros ->. exact (Others j y Hy Hne Hk).
  - rewrite Hr. intros H. destruct (ni_pay s HN H) as (j & y & k & a & g & Hy & Hpc & Hs). exists j, y, k, a, g. split; [exact Hy|]. split; [exact Hpc|].
    rewrite StO; [exact Hs|]. intros ->. rewrite (st_of_nth _ _ _ Hcl), Hst in Hs. discriminate.
  - exact (ni_t2 s HN).
  - intros j1 j2 y1 y2 k a am mf md g g0 Hy1 Hy2 Hpc Hs Hg0. destruct (Nat.eq_dec k cid) as [->|Hk].
    + rewrite StC in Hs. inversion Hs. exfalso. exact (Hng g H0).
    + rewrite StO in Hs by exact Hk. exact (ni_t3 s HN j1 j2 y1 y2 k a am mf md g g0 Hy1 Hy2 Hpc Hs Hg0).
  - unfold busy, hot. rewrite Hd, Hp, Hr. exact (ni_wa s HN).
  - rewrite Hd. exact (ni_ng s HN).
  - intros k cl' y Hk Hrep. destruct (nth_set_status _ _ _ _ _ Hk) as (cl0 & H0 & Hrr & Hne & Heq).
    destruct (Nat.eq_dec k cid) as [->|Hkc].
    + rewrite Hcl in H0. inversion H0; subst cl0. rewrite Hrr. apply (typed_same s); [reflexivity|]. apply Hry. rewrite <- Hrep. symmetry. exact (Heq eq_refl).
    + rewrite (Hne Hkc) in *. exact (typed_same s _ k _ y eq_refl (ni_r s HN k cl0 y H0 Hrep)).
Qed.

Lemma NInv_process_write c s cid cl m gg v g' y i x :
  InvC c s -> NInv s -> nth_error (calls s) cid = Some cl -> c_st cl = Unprocessed -> c_rpc cl = QWriteState m gg v ->
  nth_error (lcs (pl s)) i = Some x -> In cid (awaits (l_pc x)) ->
  bump (nd s) g' -> (y = YGen g' \/ y = YErr) -> v <> DGarbage ->
  (hotv v \/ (quiet (nd s) /\ forall j z, nth_error (lcs (pl s)) j = Some z -> nohot (calls s) (l_pc z))) ->
  (reads_calls (l_pc x) = false \/ exists a am mf md, l_pc x = PAdd1 cid a am mf md) ->
  NInv {| nd := set_ds (nd s) (Some (v, g')); pl := pl s; calls := set_status cid (Replied y) (calls s); now := now s; height := height s |}.
Proof.
  intros HC HN Hcl Hst Hq Hx Hin Hb Hy Hvg Hh Hown. pose proof HC as [_ Hdis].
  assert (Others : forall j z, nth_error (lcs (pl s)) j = Some z -> j <> i -> ~ In cid (awaits (l_pc z))).
  { intros j z Hz Hne Hi. exact (Hdis i j x z cid (not_eq_sym Hne) Hx Hz Hin Hi). }
  assert (StO : forall k, k <> cid -> st_of (set_status cid (Replied y) (calls s)) k = st_of (calls s) k).
  { intros k Hk. unfold st_of. rewrite nth_set_status_other by congruence. reflexivity. }
  assert (StC : st_of (set_status cid (Replied y) (calls s)) cid = Some (Replied y)).
  { rewrite (st_of_nth _ _ _ (nth_set_status_same _ _ _ _ Hcl)). reflexivity. }
  assert (W : forall j z, nth_error (lcs (pl s)) j = Some z -> lc_ok (set_ds (nd s) (Some (v, g'))) (calls s) (l_pc z)).
  { intros j z Hz. apply lc_ok_write; [exact Hb| |exact (ni_lc s HN j z Hz)].
    destruct Hh as [Hh|(_ & Hh)]; [left; exact Hh|right; exact (Hh j z Hz)]. }
  constructor; cbn [nd pl calls].
  - intros j z Hz. destruct (Nat.eq_dec j i) as [->|Hne].
    + rewrite Hx in Hz. inversion Hz; subst z. specialize (W i x Hx).
      destruct Hown as [Hrc|(a & am & mf & md & Hp)].
      * apply (lc_ok_nocall (set_ds (nd s) (Some (v, g'))) _ (calls s)); auto.
      * rewrite Hp in *. cbn [lc_ok] in *. destruct W as (Haf & _). split; [exact Haf|].
        intros g Hs. rewrite StC in Hs. inversion Hs; subst y. destruct Hy as [Hy|Hy]; [|discriminate]. inversion Hy; subst g.
        unfold tok, hot. cbn [set_ds ds]. split; [lia|].
        (* the record being written is a Pending one *)
        pose proof (ic_typed c s HC i x Hx) as Hty. rewrite Hp in Hty. cbn [pc_calls_ok] in Hty. destruct Hty as (t & Hty).
        rewrite (has_call_rpc _ _ _ _ Hty Hcl) in Hq. inversion Hq; subst v. exact I.
    + apply lc_ok_status; [exact (Others j z Hz Hne)|exact (W j z Hz)].
  - cbn [set_ds payrun]. intros H. destruct (ni_pay s HN H) as (j & z & k & a & g & Hz & Hpc & Hs). exists j, z, k, a, g. split; [exact Hz|]. split; [exact Hpc|].
    rewrite StO; [exact Hs|]. intros ->. rewrite (st_of_nth _ _ _ Hcl), Hst in Hs. discriminate.
  - exact (ni_t2 s HN).
  - intros j1 j2 y1 y2 k a am mf md g g0 Hy1 Hy2 Hpc Hs Hg0. destruct (Nat.eq_dec k cid) as [->|Hk].
    + rewrite StC in Hs. inversion Hs; subst y. destruct Hy as [Hy|Hy]; [|discriminate]. inversion Hy; subst g.
      pose proof (ni_lc s HN j2 y2 Hy2) as Hl2.
      assert (T : tok (nd s) g0) by (destruct (l_pc y2); try discriminate; cbn in Hg0; inversion Hg0; subst; exact (proj1 Hl2)).
      unfold tok in T. unfold bump in Hb. destruct (ds (nd s)) as [[v0 cur]|]; [lia|destruct T].
    + rewrite StO in Hs by exact Hk. exact (ni_t3 s HN j1 j2 y1 y2 k a am mf md g g0 Hy1 Hy2 Hpc Hs Hg0).
  - unfold busy, hot. cbn [set_ds ds parts payrun]. intros H. destruct Hh as [Hh|((Haf & Hp0) & _)]; [exact Hh|]. exfalso.
    destruct H as [(k & st & Hk & Hne)|H]; [apply Hne; exact (Haf k st Hk)|exact (H Hp0)].
  - cbn [set_ds ds]. intros g E. inversion E. exact (Hvg H0).
  - intros k cl' y0 Hk Hrep. destruct (nth_set_status _ _ _ _ _ Hk) as (cl0 & H0 & Hrr & Hne & Heq).
    destruct (Nat.eq_dec k cid) as [->|Hkc].
    + rewrite Hcl in H0. inversion H0; subst cl0. rewrite Hrr, Hq. apply typed_nonread; reflexivity.
    + rewrite (Hne Hkc) in *. exact (typed_same s _ k _ y0 eq_refl (ni_r s HN k cl0 y0 H0 Hrep)).
Qed.

Lemma st_of_set_same cs cid st cl : nth_error cs cid = Some cl -> st_of (set_status cid st cs) cid = Some st.
Proof. intros H. rewrite (st_of_nth _ _ _ (nth_set_status_same _ _ _ _ H)). reflexivity. Qed.

Lemma NInv_process c s cid f :
  InvU s -> InvC c s -> InvO s -> NInv s -> ev_wf s (EvProcess cid f) -> NInv (fst (step c s (EvProcess cid f))).
Proof.
  intros HU HC HO HN Hwf. cbn [step].
  destruct (nth_error (calls s) cid) as [cl|] eqn:Hcl; [|exact HN]. destruct (c_st cl) eqn:Hst; try exact HN.
  destruct (node_exec (nd s) (c_rpc cl) f) as [n' y] eqn:Hex. cbn [fst].
  destruct (live_owner c s cid cl HC HO Hcl ltac:(rewrite Hst; left; reflexivity)) as (i & x & Hx & Hin & Hs).
  pose proof (owner_pc_by_rpc c s i x cid cl HC Hx Hin Hcl) as Hob.
  pose proof (ni_lc s HN i x Hx) as Hlc.
  assert (StU : st_of (calls s) cid = Some Unprocessed) by (rewrite (st_of_nth _ _ _ Hcl), Hst; reflexivity).
  (* an injected error on a read (allowed only in the non-strict level, and never on pay()'s wait_payment): the call holds
     YErr, which claims nothing; the node is untouched *)
  assert (RF : is_read (c_rpc cl) = true -> f <> NoFault ->
               NInv {| nd := n'; pl := pl s; calls := set_status cid match y with Some r => Replied r | None => match c_rpc cl with QPay _ _ _ _ _ => Running | _ => Unprocessed end end (calls s);
                       now := now s; height := height s |}).
  { intros Hrd Hnf. rewrite (node_exec_read_fault (nd s) (c_rpc cl) f Hrd Hnf) in Hex. inversion Hex; subst n' y.
    assert (Hnpw : strict = false /\ ~ pay_wait_call s cid).
    { destruct Hwf as [E|E]; [congruence|]. destruct (E cl Hcl) as [E1|E1]; [congruence|exact E1]. }
    apply (NInv_process_frame c s cid cl (nd s) _ i x); auto.
    - destruct (l_pc x) as [k1|kk w|k1 a g t|k1 a g t|d|k1 a am mf md|k1 a g am mf md|k1 a g|k1 a pr|k1 a|k1 a g|k1 a g| |] eqn:Hp;
        try (apply (lc_ok_nocall (nd s) (nd s) (calls s)); auto; fail); cbn [awaits] in Hin.
      + cbn [lc_ok]. intros v Hv. destruct Hin as [<-|[]]. rewrite (st_of_set_same _ _ _ _ Hcl) in Hv. discriminate.
      + destruct Hlc as (Hw & Htok). split; [|exact Htok].
        assert (Hc : nth_error (ps_calls (wproj (nd s) (calls s) w)) cid = Some {| c_rpc := c_rpc cl; c_st := Unprocessed |})
          by (cbn; rewrite Hcl; destruct cl; cbn in *; subst; reflexivity).
        exact (wait_inv_process_err (wproj (nd s) (calls s) w) w cid (c_rpc cl) (nd s) Hc eq_refl Hw).
      + (* PAdd1 awaits a write *) exfalso. pose proof (ic_typed c s HC i x Hx) as Hty. rewrite Hp in Hty. destruct Hty as (t & Hty).
        destruct Hin as [<-|[]]. rewrite (has_call_rpc _ _ _ _ Hty Hcl) in Hrd. discriminate.
      + (* PPay awaits the pay request *) exfalso. pose proof (ic_typed c s HC i x Hx) as Hty. rewrite Hp in Hty. destruct Hty as (am & mf & md & Hty).
        destruct Hin as [<-|[]]. rewrite (has_call_rpc _ _ _ _ Hty Hcl) in Hrd. discriminate.
    - intros g H; discriminate.
    - discriminate.
    - intros y0 _. unfold typed_reply. destruct Hnpw as (-> & Hn). intros Hpw. contradiction. }
  assert (FD : f = NoFault \/ f <> NoFault) by (destruct f; [left; reflexivity|right; discriminate|right; discriminate]).
  assert (NoF : is_read (c_rpc cl) = true -> f = NoFault -> f = NoFault) by auto.
  destruct (c_rpc cl) eqn:Hq.
  - (* QListState *)
    destruct FD as [->|Hnf]; [|exact (RF eq_refl Hnf)]. rewrite node_exec_read_nofault in Hex by reflexivity. inversion Hex; subst n' y. cbn in Hs.
    apply (NInv_process_frame c s cid cl (nd s) _ i x); auto.
    + rewrite Hs. cbn [lc_ok]. intros v Hv Hfv. rewrite (st_of_set_same _ _ _ _ Hcl) in Hv. inversion Hv; subst v. apply free_all_failed; assumption.
    + intros g H; discriminate.
    + discriminate.
    + intros y0 H. inversion H; subst. rewrite Hq. apply typed_of_ok. cbn. eexists. split; [reflexivity|exact (ni_ng s HN)].
  - (* QWriteState *)
    assert (Hown : reads_calls (l_pc x) = false \/ exists a am mf md, l_pc x = PAdd1 cid a am mf md).
    { cbn in Hs. destruct v.
      - destruct Hs as (_ & [(a & g & t & -> & _)|(a & g & -> & _)]); left; reflexivity.
      - destruct Hs as (_ & _ & am & mf & md & ->). right. eauto.
      - destruct Hs as (_ & _ & a & ->). left; reflexivity.
      - destruct Hs. }
    destruct (node_exec_write_cases _ _ _ _ _ _ _ Hex) as [(-> & ->)|(g' & -> & Hb & Hy & Hgen)].
    + apply (NInv_process_frame c s cid cl (nd s) _ i x); auto.
      * destruct Hown as [Hrc|(a & am & mf & md & Hp)]; [apply (lc_ok_nocall (nd s) (nd s) (calls s)); auto|].
        rewrite Hp in *. cbn [lc_ok] in *. split; [exact (proj1 Hlc)|]. intros g Hg. rewrite (st_of_set_same _ _ _ _ Hcl) in Hg. discriminate.
      * intros g H; discriminate.
      * discriminate.
      * intros y0 _. rewrite Hq. apply typed_nonread; reflexivity.
    + assert (Hy' : exists y0, y = Some y0 /\ (y0 = YGen g' \/ y0 = YErr)) by (destruct Hy as [->| ->]; eauto).
      destruct Hy' as (y0 & -> & Hy0).
      apply (NInv_process_write c s cid cl m gen v g' y0 i x); auto.
      * intros ->. exact Hs.
      * destruct v; [right|left; exact I|left; exact I|destruct Hs].
        cbn in Hs. destruct Hs as (Hm & [(a & g & t & Hp & Hgg)|(a & g & Hp & Hgg)]); pose proof (Hgen g Hgg Hm) as Hgi; rewrite Hp in Hlc; cbn [lc_ok] in Hlc.
        -- (* mark_failed of the restart path: this lifecycle is the attached one *)
           split; [split; [exact Hlc|exact (proj1 (not_paying c s i x HU HC HO HN Hx ltac:(rewrite Hp; reflexivity) ltac:(rewrite Hp; intros; discriminate)))]|].
           intros j z Hz.
           assert (Na : attached (l_pc z) = true -> l_pc z = PMarkF2 cid a g t).
           { intros Az. destruct (att_unique s j i z x HU Hz Hx Az ltac:(rewrite Hp; reflexivity)) as (_ & ->). exact Hp. }
           destruct (l_pc z) eqn:Ez; cbn [nohot]; auto; specialize (Na eq_refl); discriminate.
        -- (* mark_failed after a failed pay: the generation still is the one this lifecycle wrote *)
           destruct Hlc as (Ht & Hc). split; [exact (Hc Hgi)|].
           intros j z Hz. pose proof (ni_lc s HN j z Hz) as Hlz.
           assert (Contra : forall g1, g < g1 -> tok (nd s) g1 -> False).
           { intros g1 Hlt T. unfold tok in T. unfold gen_is in Hgi. destruct (ds (nd s)) as [[v0 cur]|]; [lia|exact T]. }
           destruct (l_pc z) eqn:Ez; cbn [nohot]; auto; cbn [lc_ok] in Hlz.
           ++ intros g1 E. destruct Hlz as (_ & Hg1). apply (Contra g1); [|exact (proj1 (Hg1 g1 E))].
              exact (ni_t3 s HN j i z x _ _ _ _ _ g1 g Hz Hx Ez E ltac:(rewrite Hp; reflexivity)).
           ++ apply (Contra g0); [|exact (proj2 (proj2 Hlz))]. exact (ni_t2 s HN j i z x g0 g Hz Hx ltac:(rewrite Ez; reflexivity) ltac:(rewrite Hp; reflexivity)).
           ++ apply (Contra g0); [|exact (proj1 Hlz)]. exact (ni_t2 s HN j i z x g0 g Hz Hx ltac:(rewrite Ez; reflexivity) ltac:(rewrite Hp; reflexivity)).
  - (* QWriteAtt *)
    destruct (node_exec_att_cases _ _ _ _ _ _ _ _ _ _ Hex) as (Hd & Hp & Hr & Hy).
    assert (Hy' : exists y0, y = Some y0 /\ (y0 = YUnit \/ y0 = YErr)) by (destruct Hy as [->| ->]; eauto).
    destruct Hy' as (y0 & -> & Hy0).
    apply (NInv_process_frame c s cid cl n' _ i x); auto.
    + apply (lc_ok_nocall (nd s) n' (calls s)); auto.
    + intros g H. inversion H. destruct Hy0; congruence.
    + discriminate.
    + intros y1 _. rewrite Hq. apply typed_nonread; reflexivity.
  - (* QListPend *)
    destruct FD as [->|Hnf]; [|exact (RF eq_refl Hnf)]. destruct Hob as (kk & w & Hp). rewrite Hp in Hlc. destruct Hlc as (Hw & Htok).
    pose proof Hex as Hex'. rewrite node_exec_read_nofault in Hex' by reflexivity. inversion Hex'; subst n' y.
    assert (Hc : nth_error (ps_calls (wproj (nd s) (calls s) w)) cid = Some {| c_rpc := QListPend; c_st := Unprocessed |})
      by (cbn; rewrite Hcl; destruct cl; cbn in *; subst; reflexivity).
    pose proof (wait_inv_process_nofault (wproj (nd s) (calls s) w) w cid QListPend _ _ _ Hc Hex eq_refl Hw) as HW.
    apply (NInv_process_frame c s cid cl (nd s) _ i x); auto.
    + rewrite Hp. split; [exact HW|exact Htok].
    + intros g H; discriminate.
    + discriminate.
    + intros y0 H. inversion H; subst. rewrite Hq. apply typed_of_ok. cbn. eauto.
  - (* QListDone *)
    destruct FD as [->|Hnf]; [|exact (RF eq_refl Hnf)]. destruct Hob as (kk & w & Hp). rewrite Hp in Hlc. destruct Hlc as (Hw & Htok).
    pose proof Hex as Hex'. rewrite node_exec_read_nofault in Hex' by reflexivity. inversion Hex'; subst n' y.
    assert (Hc : nth_error (ps_calls (wproj (nd s) (calls s) w)) cid = Some {| c_rpc := QListDone; c_st := Unprocessed |})
      by (cbn; rewrite Hcl; destruct cl; cbn in *; subst; reflexivity).
    pose proof (wait_inv_process_nofault (wproj (nd s) (calls s) w) w cid QListDone _ _ _ Hc Hex eq_refl Hw) as HW.
    apply (NInv_process_frame c s cid cl (nd s) _ i x); auto.
    + rewrite Hp. split; [exact HW|exact Htok].
    + intros g H; discriminate.
    + discriminate.
    + intros y0 H. inversion H; subst. rewrite Hq. apply typed_of_ok. cbn. eauto.
  - (* QWaitPart *)
    destruct FD as [->|Hnf]; [|exact (RF eq_refl Hnf)]. destruct Hob as (kk & w & Hp). rewrite Hp in Hlc. destruct Hlc as (Hw & Htok).
    pose proof Hex as Hex'. rewrite node_exec_read_nofault in Hex' by reflexivity. inversion Hex' as [[Hn Hy]]. subst n'.
    assert (Hc : nth_error (ps_calls (wproj (nd s) (calls s) w)) cid = Some {| c_rpc := QWaitPart pid; c_st := Unprocessed |})
      by (cbn; rewrite Hcl; destruct cl; cbn in *; subst; reflexivity).
    pose proof (wait_inv_process_nofault (wproj (nd s) (calls s) w) w cid (QWaitPart pid) _ _ _ Hc Hex eq_refl Hw) as HW.
    rewrite <- Hy in HW.
    apply (NInv_process_frame c s cid cl (nd s) _ i x); auto.
    + rewrite Hp. split; [exact HW|exact Htok].
    + intros g H. destruct (nth_error (parts (nd s)) pid) as [[| |]|]; discriminate.
    + destruct (nth_error (parts (nd s)) pid) as [[| |]|]; discriminate.
    + intros y0 H. rewrite Hq. apply typed_of_ok. cbn. destruct (nth_error (parts (nd s)) pid) as [[|p|]|]; inversion H; eauto.
  - (* QPay *)
    cbn in Hs. destruct Hs as (a & g & Hp). rewrite Hp in Hlc. cbn [lc_ok] in Hlc. rewrite StU in Hlc. destruct Hlc as (Ht & (Haf & Hp0) & Hh).
    destruct (node_exec_pay_cases _ _ _ _ _ _ _ _ _ Hex) as [(-> & ->)|(-> & ->)].
    + apply (NInv_process_frame c s cid cl (nd s) _ i x); auto.
      * rewrite Hp. cbn [lc_ok]. rewrite (st_of_set_same _ _ _ _ Hcl). auto.
      * intros g0 H; discriminate.
      * discriminate.
      * intros y0 _. rewrite Hq. apply typed_nonread; reflexivity.
    + pose proof HC as [_ Hdis].
      assert (StO : forall k, k <> cid -> st_of (set_status cid Running (calls s)) k = st_of (calls s) k).
      { intros k Hk. unfold st_of. rewrite nth_set_status_other by congruence. reflexivity. }
      constructor; cbn [nd pl calls].
      * intros j z Hz. destruct (Nat.eq_dec j i) as [->|Hne].
        -- rewrite Hx in Hz. inversion Hz; subst z. rewrite Hp. cbn [lc_ok]. rewrite (st_of_set_same _ _ _ _ Hcl). split; [exact Ht|].
           cbn [set_payrun payrun]. lia.
        -- destruct (paying_others s i x cid a g HU HN Hx Hp j z Hz Hne) as (Az & Hg).
           apply (lc_ok_detached (nd s) _ (calls s) _ (l_pc z) Az); [reflexivity|exact Hg|exact (ni_lc s HN j z Hz)].
      * intros _. exists i, x, cid, a, g. split; [exact Hx|]. split; [exact Hp|exact (st_of_set_same _ _ _ _ Hcl)].
      * exact (ni_t2 s HN).
      * intros j1 j2 y1 y2 k a0 am0 mf0 md0 g1 g0 Hy1 Hy2 Hpc _ _. exfalso.
        assert (j1 = i) by exact (proj1 (att_unique s j1 i y1 x HU Hy1 Hx ltac:(rewrite Hpc; reflexivity) ltac:(rewrite Hp; reflexivity))).
        subst j1. rewrite Hx in Hy1. inversion Hy1; subst y1. congruence.
      * intros _. exact Hh.
      * exact (ni_ng s HN).
      * intros k cl' y0 Hk Hrep. destruct (nth_set_status _ _ _ _ _ Hk) as (cl0 & H0 & Hrr & Hne & Heq).
        destruct (Nat.eq_dec k cid) as [->|Hkc]; [rewrite (Heq eq_refl) in Hrep; discriminate|].
        rewrite (Hne Hkc) in *. exact (typed_same s _ k _ y0 eq_refl (ni_r s HN k cl0 y0 H0 Hrep)).
Qed.

(* ---------- every step preserves NInv ---------- *)
Theorem step_NInv c s ev :
  InvU s -> InvC c s -> InvO s -> NInv s -> ev_wf s ev -> NInv (fst (step c s ev)).
Proof.
  intros HU HC HO HN Hwf. destruct ev.
  - apply NInv_htlc; assumption.
  - apply NInv_pollev; assumption.
  - apply NInv_process; assumption.
  - apply NInv_deliver; assumption.
  - apply NInv_part; assumption.
  - apply NInv_newpart; assumption.
  - apply NInv_payfinish; assumption.
  - apply NInv_tick; assumption.
  - apply (NInv_irrel s); auto.
  - apply NInv_crash; assumption.
Qed.

End Strict.
