(* ConfigCheck.v — correspondence of the real binary's startup behaviour with Model/Config.v (C19). *)
From Tramp Require Import Model.Base Model.Fee Model.Config Check.Common.
Open Scope N_scope.

(* observation: started?; then (when started) policy triple decoded from a fee-insufficient failure, retry_for and maxdelay of a pay
   request issued for an HTLC expiring [gap] blocks above the height, MPP timeout observed in tenths of a second,
   whether an invoice with the local node as last hop was failed with temporary_node_failure *)
Record cobs := { c_started : bool; c_pol : option (N * N * N); c_retry : option N; c_gap : N; c_maxdelay : option N; c_mpp_ds : option N; c_self_failed : option bool }.

Definition opt_ok {A} (o : option A) (f : A -> bool) : bool := match o with Some x => f x | None => true end.

Definition verdict_config (x : opts * cobs) : N :=
  let '(o, ob) := x in
  match configure o with
  | None => verdict (c_started ob) (c_started ob) false false 0
  | Some c =>
      let p := k_policy c in
      let exp_delay := N.min (N.min (c_gap ob - k_cltv_delta c) 65535) (pol_delta p) in
      let ok := c_started ob
                && opt_ok (c_pol ob) (fun t => let '(b, q, d) := t in (b =? fee_base p) && (q =? fee_ppm p) && (d =? pol_delta p))
                && opt_ok (c_retry ob) (fun r => r =? k_retry_for c)
                && opt_ok (c_maxdelay ob) (fun d => d =? exp_delay)
                && opt_ok (c_mpp_ds ob) (fun t => (k_mpp_s c * 10 <=? t + 1) && (t <=? k_mpp_s c * 10 + 8))
                && opt_ok (c_self_failed ob) (fun b => Bool.eqb b (negb (k_allow_self c))) in
      verdict (negb ok) (negb ok) false false 1
  end.
