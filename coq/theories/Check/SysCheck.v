(* SysCheck.v — the global (multi-hash) system, trace replay and correspondence.
   A trace is what the harness recorded: per step one environment event and what the
   IMPLEMENTATION did (responses, RPC calls issued, cancels, panics, notifications) plus,
   for node-processing events, the reply the simulated node computed. *)
From Tramp Require Import Model.Base Model.Tlv Model.Fee Model.Classify Model.Sys Check.Common.

(* ---------- the global system: one component per payment hash ---------- *)
Record world := {
  w_cfg : cfg;
  w_ccfg : ccfg;
  w_oracle : list (list N * invoice_view);   (* graph of the invoice oracle on the blobs of this case *)
  w_hashes : list (list N);                  (* hash index -> payment hash *)
  w_sha : list (list N * list N);            (* preimage -> hash, graph of SHA-256 on the preimages of this case *)
  w_init : list (nat * node)                 (* durable state found at start (persisted histories) *)
}.

Definition oracle_of (l : list (list N * invoice_view)) (b : list N) : option invoice_view :=
  match find (fun x => bytes_eq (fst x) b) l with Some x => Some (snd x) | None => None end.

Definition hash_index (w : world) (h : list N) : option nat :=
  (fix go (i : nat) (l : list (list N)) := match l with [] => None | x :: r => if bytes_eq x h then Some i else go (S i) r end) 0%nat (w_hashes w).

Record gsys := { comps : list (nat * sys); gnow : N; gheight : N }.
Definition gsys0 := {| comps := []; gnow := 0; gheight := 0 |}.

Definition get_comp (g : gsys) (h : nat) : sys :=
  match find (fun x => Nat.eqb (fst x) h) (comps g) with
  | Some x => snd x
  | None => {| nd := node0; pl := plugin0; calls := []; now := gnow g; height := gheight g |}
  end.
Fixpoint put_assoc (h : nat) (s : sys) (l : list (nat * sys)) : list (nat * sys) :=
  match l with
  | [] => [(h, s)]
  | x :: r => if Nat.eqb (fst x) h then (h, s) :: r else x :: put_assoc h s r
  end.
Definition put_comp (g : gsys) (h : nat) (s : sys) : gsys :=
  {| comps := put_assoc h s (comps g); gnow := gnow g; gheight := gheight g |}.

Inductive gevent :=
| GHtlc (rq : request)
| GBurst (rqs : list request)   (* HTLCs handled concurrently while the table lock is contended: all handle_htlc segments in
                                   queue order first, the lifecycles' polls after them *)
| GEv (h : nat) (ev : event)       (* EvProcess / EvDeliver / EvPart / EvPayNewPart / EvPayFinish of hash h *)
| GTimeout (h cid : nat)           (* the node answers a waitsendpay that carried a timeout with "timed out" while the part is still
                                     pending: a legitimate reply (code 200), not a fault. The unchanged plugin never passes a timeout,
                                     so this event occurs only in traces of changed code (DESIGN 0, "Out of vocabulary") *)
| GHang (uid : N)                  (* the handler task of one held HTLC goes away (its listener is closed): nothing happens in the
                                     plugin; from now on no response can be observed for this HTLC *)
| GTick (dt : N)
| GHeight (v : N)
| GCrash.

Inductive gout :=
| GResp (uid : N) (r : response)
| GDecodeErr (uid : N)
| GCall (h cid : nat) (q : rpc)
| GCancel (h cid : nat)
| GPanic
| GNotify (h : nat)
| GOther.

Definition lift_out (h : nat) (o : output) : gout :=
  match o with
  | OResp u r => GResp u r
  | OCall c q => GCall h c q
  | OCancel c => GCancel h c
  | OPanic => GPanic
  | ONotify => GNotify h
  end.

Definition htlc_of (rq : request) (t : tramp_info) : htlc :=
  {| hid := r_id rq; blob := ti_blob t; deliver := ti_amount t; inv_amount := ti_inv_amount t;
     amt := r_amount rq; total := match r_total rq with Some x => x | None => match r_forward rq with Some f => f | None => 0 end end;
     expiry := r_expiry rq; rel := r_rel rq |}.

(* the classification the model expects for a request; payload decode failure is its own outcome *)
Inductive gclass := KDecodeErr | KResp (r : response) | KTramp (h : nat) (t : tramp_info) | KUnknownHash | KPanic.
Definition gclassify (w : world) (rq : request) : gclass :=
  match try_from true (r_payload rq) with
  | Err => KDecodeErr
  | Panic => KPanic
  | Ok es =>
      match classify_entries (oracle_of (w_oracle w)) true (w_ccfg w) rq es with
      | CResp r => KResp r
      | CPanic => KPanic
      | CTramp t => match hash_index w (ti_hash t) with Some h => KTramp h t | None => KUnknownHash end
      end
  end.

Definition map_comps (f : sys -> sys * list output) (g : gsys) : list (nat * sys) * list gout :=
  fold_right (fun x acc => let '(s', o) := f (snd x) in ((fst x, s') :: fst acc, map (lift_out (fst x)) o ++ snd acc)) ([], []) (comps g).

(* the handle_htlc segment alone (no poll), and the hash it touched *)
Definition gstep_htlc_only (w : world) (g : gsys) (rq : request) : gsys * list gout * option nat :=
  match gclassify w rq with
  | KDecodeErr => (g, [GDecodeErr (r_id rq)], None)
  | KResp r => (g, [GResp (r_id rq) r], None)
  | KTramp h t => let '(s', o) := step (w_cfg w) (get_comp g h) (EvHtlc (htlc_of rq t)) in (put_comp g h s', map (lift_out h) o, Some h)
  | KUnknownHash | KPanic => (g, [GOther], None)
  end.

Fixpoint nodup_nat (l : list nat) : list nat :=
  match l with [] => [] | x :: r => if existsb (Nat.eqb x) r then nodup_nat r else x :: nodup_nat r end.

Definition gstep (w : world) (g : gsys) (ev : gevent) (sel : bool) : gsys * list gout :=
  match ev with
  | GBurst rqs =>
      let '(g1, o1, hs) := fold_left (fun acc rq => let '(ga, oa, ha) := acc in
                                                     let '(gb, ob, hb) := gstep_htlc_only w ga rq in
                                                     (gb, oa ++ ob, match hb with Some h => ha ++ [h] | None => ha end)) rqs (g, [], []) in
      fold_left (fun acc h => let '(ga, oa) := acc in
                              let '(s', o) := step (w_cfg w) (get_comp ga h) (EvPoll sel) in (put_comp ga h s', oa ++ map (lift_out h) o))
                (nodup_nat hs) (g1, o1)
  | GHtlc rq =>
      match gclassify w rq with
      | KDecodeErr => (g, [GDecodeErr (r_id rq)])
      | KResp r => (g, [GResp (r_id rq) r])
      | KTramp h t => let '(s', o) := step_htlc (w_cfg w) (get_comp g h) (htlc_of rq t) sel in (put_comp g h s', map (lift_out h) o)
      | KUnknownHash | KPanic => (g, [GOther])
      end
  | GEv h ev =>
      let ev' := match ev with EvDeliver c _ => EvDeliver c sel | x => x end in
      let '(s', o) := step (w_cfg w) (get_comp g h) ev' in (put_comp g h s', map (lift_out h) o)
  | GTimeout h cid =>
      (* for the plugin model an error reply to the wait, without effect on the node *)
      let '(s', o) := step (w_cfg w) (get_comp g h) (EvProcess cid Rejected) in (put_comp g h s', map (lift_out h) o)
  | GHang _ => (g, [])
  | GTick dt =>
      let '(cs, o) := map_comps (fun s => step (w_cfg w) s (EvTick dt)) g in
      ({| comps := cs; gnow := gnow g + dt; gheight := gheight g |}, o)
  | GHeight v =>
      let '(cs, o) := map_comps (fun s => step (w_cfg w) s (EvHeight v)) g in
      ({| comps := cs; gnow := gnow g; gheight := v |}, o)
  | GCrash =>
      let '(cs, o) := map_comps (fun s => step (w_cfg w) s EvCrash) g in
      ({| comps := cs; gnow := gnow g; gheight := gheight g |}, o)
  end.

(* ---------- boolean equalities ---------- *)
Definition dsval_eqb (a b : dsval) : bool :=
  match a, b with
  | DFree, DFree => true
  | DPending a1 t1, DPending a2 t2 => (a1 =? a2) && (t1 =? t2)
  | DSucc p, DSucc q => bytes_eq p q
  | DGarbage, DGarbage => true
  | _, _ => false
  end.
Definition wmode_eqb (a b : wmode) : bool :=
  match a, b with MustCreate, MustCreate | MustReplace, MustReplace | CreateOrReplace, CreateOrReplace => true | _, _ => false end.
Definition rpc_eqb (a b : rpc) : bool :=
  match a, b with
  | QListState, QListState => true
  | QWriteState m g v, QWriteState m' g' v' => wmode_eqb m m' && option_eqb N.eqb g g' && dsval_eqb v v'
  | QWriteAtt m a c s am bl, QWriteAtt m' a' c' s' am' bl' =>
      wmode_eqb m m' && (a =? a') && Bool.eqb c c' && Bool.eqb s s' && (am =? am') && bytes_eq bl bl'
  | QListPend, QListPend => true
  | QListDone, QListDone => true
  | QWaitPart p, QWaitPart p' => Nat.eqb p p'
  | QPay b a f d r, QPay b' a' f' d' r' => bytes_eq b b' && option_eqb N.eqb a a' && (f =? f') && (d =? d') && (r =? r')
  | _, _ => false
  end.
Definition response_eqb (a b : response) : bool :=
  match a, b with
  | Continue p, Continue q => option_eqb bytes_eq p q
  | Fail m, Fail m' => bytes_eq m m'
  | Resolve k, Resolve k' => bytes_eq k k'
  | _, _ => false
  end.
Definition gout_eqb (a b : gout) : bool :=
  match a, b with
  | GResp u r, GResp u' r' => (u =? u') && response_eqb r r'
  | GDecodeErr u, GDecodeErr u' => u =? u'
  | GCall h c q, GCall h' c' q' => Nat.eqb h h' && Nat.eqb c c' && rpc_eqb q q'
  | GCancel h c, GCancel h' c' => Nat.eqb h h' && Nat.eqb c c'
  | GPanic, GPanic => true
  | GNotify h, GNotify h' => Nat.eqb h h'
  | _, _ => false
  end.
Definition payout_eqb (a b : payout) : bool :=
  match a, b with
  | PayComplete p, PayComplete q => bytes_eq p q
  | PayPending, PayPending | PayFailedWarn, PayFailedWarn | PayFailed, PayFailed | PayError, PayError => true
  | _, _ => false
  end.
Definition reply_eqb (a b : reply) : bool :=
  match a, b with
  | YState v, YState v' => option_eqb (pair_eqb dsval_eqb N.eqb) v v'
  | YGen g, YGen g' => g =? g'
  | YUnit, YUnit => true
  | YPids l, YPids l' => list_eqb Nat.eqb l l'
  | YPres l, YPres l' => list_eqb bytes_eq l l'
  | YPre p, YPre p' => bytes_eq p p'
  | YPartFailed, YPartFailed => true
  | YPay o, YPay o' => payout_eqb o o'
  | YErr, YErr => true
  | _, _ => false
  end.

(* multiset equality of the outputs of one step *)
Fixpoint remove_first (x : gout) (l : list gout) : option (list gout) :=
  match l with
  | [] => None
  | y :: r => if gout_eqb x y then Some r else match remove_first x r with Some r' => Some (y :: r') | None => None end
  end.
Fixpoint outs_match (a b : list gout) : bool :=
  match a with
  | [] => match b with [] => true | _ => false end
  | x :: r => match remove_first x b with Some b' => outs_match r b' | None => false end
  end.

(* ---------- traces ---------- *)
Record tstep := {
  t_ev : gevent;
  t_out : list gout;           (* what the implementation did in this step *)
  t_reply : option (option reply)  (* for GEv _ (EvProcess ..): the reply the simulated node computed (None = no reply yet) *)
}.

(* the reply the model's node gives to the call processed in this step (None if the event is not a process event) *)
Definition model_reply (g g' : gsys) (ev : gevent) : option (option reply) :=
  match ev with
  | GEv h (EvProcess cid _) | GTimeout h cid =>
      match nth_error (calls (get_comp g h)) cid, nth_error (calls (get_comp g' h)) cid with
      | Some before, Some after =>
          match c_st before, c_st after with
          | Unprocessed, Replied y => Some (Some y)
          | Unprocessed, _ => Some None
          | _, _ => None
          end
      | _, _ => None
      end
  | _ => None
  end.

(* result of the correspondence replay: first step (1-based) whose outputs differ (0 = none),
   first step whose node reply differs (0 = none), number of steps replayed *)
Record corr := { k_out : N; k_reply : N; k_steps : N; k_final : gsys }.

(* responses the model addresses to an HTLC whose handler has gone away cannot be observed *)
Definition drop_hung (hung : list N) (o : list gout) : list gout :=
  filter (fun x => match x with GResp u _ => negb (existsb (N.eqb u) hung) | _ => true end) o.

Fixpoint replay (w : world) (g : gsys) (tr : list tstep) (i : N) (hung : list N) (acc : corr) : corr :=
  match tr with
  | [] => {| k_out := k_out acc; k_reply := k_reply acc; k_steps := i; k_final := g |}
  | st :: r =>
      let hung := match t_ev st with GHang u => u :: hung | GCrash => [] | _ => hung end in
      let '(g1, o1) := gstep w g (t_ev st) true in
      let o1 := drop_hung hung o1 in
      let '(g', ok) :=
        if outs_match o1 (t_out st) then (g1, true)
        else let '(g2, o2) := gstep w g (t_ev st) false in
             if outs_match (drop_hung hung o2) (t_out st) then (g2, true) else (g1, false) in
      if negb ok then {| k_out := i + 1; k_reply := k_reply acc; k_steps := i; k_final := g |}
      else
        let rep_ok := match t_reply st, model_reply g g' (t_ev st) with
                      | Some a, Some b => option_eqb reply_eqb a b
                      | None, None => true
                      | Some None, None => true    (* processing a call the model considers not processable: reported as output mismatch elsewhere *)
                      | _, _ => false
                      end in
        let acc' := if rep_ok || negb (k_reply acc =? 0) then acc
                    else {| k_out := k_out acc; k_reply := i + 1; k_steps := 0; k_final := g |} in
        replay w g' r (i + 1) hung acc'
  end.

Definition corr0 := {| k_out := 0; k_reply := 0; k_steps := 0; k_final := gsys0 |}.
Definition ginit (w : world) : gsys :=
  (* attempt ids are fresh (nanosecond timestamps in the code; ordinals by first appearance in the traces): a stored history that
     already names attempt [a] makes the next one [a + 1] *)
  {| comps := map (fun x => (fst x, {| nd := snd x;
                                       pl := {| entry_ := None; lcs := [];
                                                next_att := match ds (snd x) with Some (DPending a _, _) => a + 1 | _ => 0 end |};
                                       calls := []; now := 0; height := 0 |})) (w_init w); gnow := 0; gheight := 0 |}.
Definition run_corr (w : world) (tr : list tstep) : corr := replay w (ginit w) tr 0 [] corr0.
