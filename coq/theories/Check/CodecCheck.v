(* CodecCheck.v — correspondence and monitors for the wire protocol (C17). *)
From Tramp Require Import Model.Base Model.Codec Model.Driver Check.Common.

Definition frames_eqb (a b : list (list N)) : bool := list_eqb bytes_eqb a b.

(* decode case: chunks, frames the implementation produced, bytes it left in the buffer, error flag *)
Definition verdict_decode (x : list (list N) * list (list N) * list N * bool) : N :=
  let '(chunks, impl_frames, impl_left, impl_err) := x in
  let '(mf, ml) := feed [] chunks in
  let whole := frames (concat chunks) in
  let corr := frames_eqb mf impl_frames && bytes_eqb ml impl_left && negb impl_err in
  (* the property on the implementation's observation: the frames of the whole stream, each once, in order *)
  let mon := frames_eqb (fst whole) impl_frames && bytes_eqb (snd whole) impl_left && negb impl_err in
  verdict (negb corr) (negb mon) false false (N.min 3 (N.of_nat (length (fst whole)))).

Definition verdict_encode (x : list (list N) * list N) : N :=
  let '(ms, impl_bytes) := x in
  let corr := bytes_eqb (concat (map encode ms)) impl_bytes in
  let mon := frames_eqb (fst (frames impl_bytes)) ms && match snd (frames impl_bytes) with [] => true | _ => false end in
  verdict (negb corr) (negb mon) false (negb (forallb (fun m => forallb (fun b => negb (b =? NL)) m) ms)) (N.min 3 (N.of_nat (length ms))).

(* driver case: number of hook requests (ids 0..n-1 in arrival order), completion order, observed (id, echoed tag) of the replies in write order,
   number of unparseable frames, trailing bytes, the log lines the handlers emitted (by request index) and the log notifications read back *)
Definition dbody (_ : msg) : list N := [65].
Definition run_driver (n : nat) (order : list N) : list N :=
  let reqs := map N.of_nat (seq 0 n) in
  let full_order := order ++ filter (fun id => negb (existsb (N.eqb id) order)) reqs in
  (* the machine of Model/Driver.v under the schedule the harness forces: every request dispatched, then the handlers
     released one by one, each reply forwarded and written before the next handler is released *)
  let evs := flat_map (fun id => [VReq id; VDispatch]) reqs
             ++ flat_map (fun id => [VComplete id; VRecv; VAcquire WDriver; VWrite 3; VRelease]) full_order in
  replies (d_done (drun dbody evs dinit)).

Definition count_occ_N (x : N) (l : list N) : nat := length (filter (N.eqb x) l).

Definition verdict_driver (x : nat * list N * list (N * N) * N * N * list N * list N) : N :=
  let '(n, order, replies, bad, trailing, logs_emitted, logs_seen) := x in
  let model := run_driver n order in
  let ids := map fst replies in
  (* the order of replies among handlers released one by one follows the completion order; the rest may come in any order *)
  let k := length order in
  let corr := list_eqb N.eqb (firstn k model) (firstn k ids) in
  let mon := forallb (fun id => Nat.eqb (count_occ_N id ids) 1) (map N.of_nat (seq 0 n))      (* exactly one reply per request id *)
             && Nat.eqb (length ids) n
             && forallb (fun r => fst r =? snd r) replies                                          (* carrying that request's result *)
             && forallb (fun l => Nat.eqb (count_occ_N l logs_seen) (count_occ_N l logs_emitted)) (logs_emitted ++ logs_seen)   (* each log line written once, whole *)
             && (bad =? 0) && (trailing =? 0) in                                                   (* every frame a complete JSON document *)
  verdict (negb corr) (negb mon) false false (N.min 3 (N.of_nat n)).
