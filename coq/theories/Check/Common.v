(* Common.v — boolean equality helpers and verdict encoding for the
   correspondence cases.  A verdict is an N:
     bit 0 (1)  correspondence: model and implementation observations differ
     bit 1 (2)  monitor: the property's boolean statement fails on the IMPLEMENTATION's observation
     bit 2 (4)  the case lies in a known-finding class
     bit 3 (8)  the case is malformed / environment contract violated (tooling error)
     bits 4..   a small "shape" code used for the input-distribution statistics *)
From Tramp Require Import Model.Base.

Fixpoint list_eqb {A} (eqb : A -> A -> bool) (a b : list A) : bool :=
  match a, b with
  | [], [] => true
  | x :: a', y :: b' => eqb x y && list_eqb eqb a' b'
  | _, _ => false
  end.

Definition option_eqb {A} (eqb : A -> A -> bool) (a b : option A) : bool :=
  match a, b with
  | None, None => true
  | Some x, Some y => eqb x y
  | _, _ => false
  end.

Definition res_eqb {A} (eqb : A -> A -> bool) (a b : res A) : bool :=
  match a, b with
  | Ok x, Ok y => eqb x y
  | Err, Err => true
  | Panic, Panic => true
  | _, _ => false
  end.

Definition pair_eqb {A B} (ea : A -> A -> bool) (eb : B -> B -> bool) (a b : A * B) : bool :=
  ea (fst a) (fst b) && eb (snd a) (snd b).

Definition bytes_eqb := list_eqb N.eqb.

Lemma list_eqb_eq {A} (eqb : A -> A -> bool) :
  (forall x y, eqb x y = true -> x = y) -> forall a b, list_eqb eqb a b = true -> a = b.
Proof.
  intros H a; induction a as [|x a IH]; intros [|y b]; cbn; try discriminate; [reflexivity|].
  intros E. apply andb_prop in E as [E1 E2]. f_equal; auto.
Qed.

Lemma bytes_eqb_eq a b : bytes_eqb a b = true -> a = b.
Proof. apply list_eqb_eq. intros x y. apply N.eqb_eq. Qed.

Definition verdict (corr_bad mon_bad kf malformed : bool) (shape : N) : N :=
  (if corr_bad then 1 else 0) + (if mon_bad then 2 else 0) + (if kf then 4 else 0)
  + (if malformed then 8 else 0) + 16 * shape.
