(* SysMon.v — the composite properties (C01-C09, C11, C12c, C13) as boolean monitors
   evaluated on the IMPLEMENTATION's trace. The monitor keeps its own, implementation-driven
   view: the node state is evolved with the RPCs the implementation actually issued (not the
   model's), HTLCs are "held" from delivery until the implementation answers them.
   A violation sets bit i of the mask for property Ci. *)
From Tramp Require Import Model.Base Model.Tlv Model.Fee Model.Classify Model.Sys Check.Common Check.SysCheck.

Inductive mstat := MUnproc | MRunning | MReplied (y : reply) | MDone.
Record mcall := { mc_q : rpc; mc_st : mstat }.

Record held := { hd_uid : N; hd_h : nat; hd_rq : request; hd_t : tramp_info; hd_time : N; hd_hung : bool }.

Record mhash := {
  mh_nd : node;
  mh_calls : list (nat * mcall);
  mh_last_deliver : N;          (* virtual time of the last reply delivery in this epoch *)
  mh_doomed : list N;           (* uids of an incomplete set hit by a rejection: must not be paid while unanswered *)
  mh_any_reject : bool;         (* some HTLC of the current entry triggered a rejection *)
  mh_attempted : bool;          (* an outgoing attempt exists on the node for this hash *)
  mh_fetch : option (N * bool); (* current entry: time its state was read, and whether it was Free/absent *)
  mh_started : bool;            (* current entry: add_payment_attempt was started *)
  mh_funding : option (nat * list N); (* pay call outstanding, and the uids it was funded by *)
  mh_first : option (N * bool); (* current entry: uid of its first HTLC and whether the expiry/total gates reject it *)
  mh_snap : option (N * N)      (* chain height and lowest held expiry when the current payment was initiated *)
}.
Definition mhash0 (n : node) : mhash :=
  {| mh_nd := n; mh_calls := []; mh_last_deliver := 0; mh_doomed := []; mh_any_reject := false; mh_attempted := false;
     mh_fetch := None; mh_started := false; mh_funding := None; mh_first := None; mh_snap := None |}.

Record mon := {
  m_hs : list (nat * mhash);
  m_held : list held;
  m_answered : list N;
  m_now : N; m_height : N;
  m_viol : N;          (* bitmask of violated properties *)
  m_first : N;         (* 1-based step of the first violation *)
  m_kf : N;            (* bit 0: a read RPC was answered with an injected error (class kf_read_error);
                          bit 1: ... and that read belongs to the wait_payment inside pay() (KF-B, class kf_pay_wait_read_error) *)
  m_bad : bool;        (* environment contract violated by the trace itself (tooling error) *)
  m_stats : N          (* number of pay calls seen *)
}.

Definition bit (i : N) : N := 2 ^ i.
Definition has_bit (m i : N) : bool := N.testbit m i.

Fixpoint put_h (h : nat) (x : mhash) (l : list (nat * mhash)) : list (nat * mhash) :=
  match l with
  | [] => [(h, x)]
  | y :: r => if Nat.eqb (fst y) h then (h, x) :: r else y :: put_h h x r
  end.
Definition get_h (m : mon) (h : nat) : mhash :=
  match find (fun x => Nat.eqb (fst x) h) (m_hs m) with Some x => snd x | None => mhash0 node0 end.

Definition set_hs (m : mon) (hs : list (nat * mhash)) : mon :=
  {| m_hs := hs; m_held := m_held m; m_answered := m_answered m; m_now := m_now m; m_height := m_height m;
     m_viol := m_viol m; m_first := m_first m; m_kf := m_kf m; m_bad := m_bad m; m_stats := m_stats m |}.
Definition set_h (m : mon) (h : nat) (x : mhash) : mon := set_hs m (put_h h x (m_hs m)).
Definition set_held (m : mon) (l : list held) : mon :=
  {| m_hs := m_hs m; m_held := l; m_answered := m_answered m; m_now := m_now m; m_height := m_height m;
     m_viol := m_viol m; m_first := m_first m; m_kf := m_kf m; m_bad := m_bad m; m_stats := m_stats m |}.
Definition live_held (l : list held) : list held := filter (fun s => negb (hd_hung s)) l.

Definition viol (step : N) (p : N) (cond_ok : bool) (m : mon) : mon :=
  if cond_ok then m else
  {| m_hs := m_hs m; m_held := m_held m; m_answered := m_answered m; m_now := m_now m; m_height := m_height m;
     m_viol := N.lor (m_viol m) (bit p); m_first := if m_first m =? 0 then step else m_first m;
     m_kf := m_kf m; m_bad := m_bad m; m_stats := m_stats m |}.
Definition set_bad (m : mon) : mon :=
  {| m_hs := m_hs m; m_held := m_held m; m_answered := m_answered m; m_now := m_now m; m_height := m_height m;
     m_viol := m_viol m; m_first := m_first m; m_kf := m_kf m; m_bad := true; m_stats := m_stats m |}.
Definition set_kf (m : mon) (b : N) : mon :=
  {| m_hs := m_hs m; m_held := m_held m; m_answered := m_answered m; m_now := m_now m; m_height := m_height m;
     m_viol := m_viol m; m_first := m_first m; m_kf := N.lor (m_kf m) (bit b); m_bad := m_bad m; m_stats := m_stats m |}.

Definition upd_h (x : mhash) nd' calls' : mhash :=
  {| mh_nd := nd'; mh_calls := calls'; mh_last_deliver := mh_last_deliver x; mh_doomed := mh_doomed x; mh_any_reject := mh_any_reject x;
     mh_attempted := mh_attempted x; mh_fetch := mh_fetch x; mh_started := mh_started x; mh_funding := mh_funding x; mh_first := mh_first x; mh_snap := mh_snap x |}.

Definition mcall_get (x : mhash) (cid : nat) : option mcall :=
  match find (fun c => Nat.eqb (fst c) cid) (mh_calls x) with Some c => Some (snd c) | None => None end.
Fixpoint mcall_put (cid : nat) (c : mcall) (l : list (nat * mcall)) : list (nat * mcall) :=
  match l with
  | [] => [(cid, c)]
  | y :: r => if Nat.eqb (fst y) cid then (cid, c) :: r else y :: mcall_put cid c r
  end.

(* is call [cid] of this hash part of the wait_payment that pay() falls back to? Every lifecycle starts with a state fetch
   and reads only in its wait_payment; so: the nearest earlier call that is a state fetch or a pay request is a pay request *)
Definition in_pay_wait (x : mhash) (cid : nat) : bool :=
  let best := fold_left (fun acc c =>
                 if Nat.ltb (fst c) cid && match mc_q (snd c) with QListState | QPay _ _ _ _ _ => true | _ => false end
                 then match acc with Some b => if Nat.ltb (fst b) (fst c) then Some c else acc | None => Some c end
                 else acc) (mh_calls x) None in
  match best with Some c => match mc_q (snd c) with QPay _ _ _ _ _ => true | _ => false end | None => false end.

Definition busy (n : node) : bool := existsb (fun p => match p with PFailed => false | _ => true end) (parts n).
Definition hot (n : node) : bool := match ds n with Some (DPending _ _, _) | Some (DSucc _, _) => true | _ => false end.
Definition outstanding (x : mhash) : bool :=
  existsb (fun c => match mc_st (snd c) with MDone => false | _ => true end) (mh_calls x).
Definition pay_outstanding (x : mhash) : bool :=
  existsb (fun c => match mc_q (snd c), mc_st (snd c) with QPay _ _ _ _ _, MDone => false | QPay _ _ _ _ _, _ => true | _, _ => false end) (mh_calls x).
Definition is_read (q : rpc) : bool := match q with QListState | QListPend | QListDone | QWaitPart _ => true | _ => false end.

Definition sha_of (w : world) (p : list N) : option (list N) :=
  match find (fun x => bytes_eq (fst x) p) (w_sha w) with Some x => Some (snd x) | None => None end.
Definition hash_of (w : world) (h : nat) : list N := nth h (w_hashes w) [].
Definition preimage_ok (w : world) (h : nat) (p : list N) : bool :=
  match sha_of w p with Some x => bytes_eq x (hash_of w h) | None => false end.

Definition held_of (m : mon) (h : nat) : list held := filter (fun x => Nat.eqb (hd_h x) h) (m_held m).
Definition sum_amt (l : list held) : N := fold_right (fun x acc => r_amount (hd_rq x) + acc) 0 l.
Definition min_exp (l : list held) : N := fold_right (fun x acc => N.min (r_expiry (hd_rq x)) acc) u32max l.
Definition htotal (rq : request) : N :=
  match r_total rq with Some x => x | None => match r_forward rq with Some f => f | None => 0 end end.

Definition P01 : N := 1.  Definition P02 : N := 2.  Definition P03 : N := 3.  Definition P04 : N := 4.
Definition P05 : N := 5.  Definition P06 : N := 6.  Definition P07 : N := 7.  Definition P08 : N := 8.
Definition P09 : N := 9.  Definition P11 : N := 11. Definition P12 : N := 12. Definition P13 : N := 13.

Section Monitor.
  Variable w : world.
  Let c := w_cfg w.
  Let pl := pol c.

  (* ----- the event itself ----- *)
  Definition mon_event1 (i : N) (m : mon) (ev : gevent) (outs : list gout) : mon :=
    match ev with
    | GBurst _ => m
    | GHtlc rq =>
        match gclassify w rq with
        | KTramp h t =>
            let x := get_h m h in
            let before := held_of m h in
            let deliver0 := match before with [] => ti_amount t | b :: _ => ti_amount (hd_t b) end in
            let blob0 := match before with [] => ti_blob t | b :: _ => ti_blob (hd_t b) end in
            let funded_before := fee_sufficient pl (N.min u64max (sum_amt before)) deliver0 in
            let gate_reject := (r_rel rq <? Z.of_N (pol_delta pl))%Z || negb (fee_sufficient pl (htotal rq) (ti_amount t)) in
            let rejects := negb (bytes_eq (ti_blob t) blob0 && (ti_amount t =? deliver0)) || gate_reject in
            let fresh := match before with [] => true | _ => false end in
            let x' := {| mh_nd := mh_nd x; mh_calls := mh_calls x; mh_last_deliver := mh_last_deliver x;
                         mh_doomed := if rejects && negb funded_before then r_id rq :: map hd_uid before ++ mh_doomed x else mh_doomed x;
                         mh_any_reject := (if fresh then false else mh_any_reject x) || rejects;
                         mh_attempted := mh_attempted x;
                         mh_fetch := if fresh then None else mh_fetch x;
                         mh_started := if fresh then false else mh_started x;
                         mh_funding := mh_funding x;
                         mh_first := if fresh then Some (r_id rq, gate_reject) else mh_first x; mh_snap := mh_snap x |} in
            let m1 := set_h m h x' in
            {| m_hs := m_hs m1; m_held := m_held m1 ++ [{| hd_uid := r_id rq; hd_h := h; hd_rq := rq; hd_t := t; hd_time := m_now m; hd_hung := false |}];
               m_answered := m_answered m1; m_now := m_now m1; m_height := m_height m1; m_viol := m_viol m1; m_first := m_first m1;
               m_kf := m_kf m1; m_bad := m_bad m1; m_stats := m_stats m1 |}
        | KResp (Continue pl') =>
            (* C13: answered at once, with continue, and nothing else happens *)
            viol i P13 (match outs with [GResp u (Continue _)] => u =? r_id rq | _ => false end) m
        | _ => m
        end
    | GEv h (EvProcess cid f) =>
        let x := get_h m h in
        match mcall_get x cid with
        | Some {| mc_q := q; mc_st := MUnproc |} =>
            let '(n', y) := node_exec (mh_nd x) q f in
            let st' := match y with Some r => MReplied r | None => match q with QPay _ _ _ _ _ => MRunning | _ => MUnproc end end in
            let x' := upd_h x n' (mcall_put cid {| mc_q := q; mc_st := st' |} (mh_calls x)) in
            let x' := match q, y with
                      | QPay _ _ _ _ _, None => {| mh_nd := mh_nd x'; mh_calls := mh_calls x'; mh_last_deliver := mh_last_deliver x'; mh_doomed := mh_doomed x';
                                                   mh_any_reject := mh_any_reject x'; mh_attempted := true; mh_fetch := mh_fetch x'; mh_started := mh_started x';
                                                   mh_funding := mh_funding x'; mh_first := mh_first x'; mh_snap := mh_snap x' |}
                      | _, _ => x' end in
            let m1 := set_h m h x' in
            let m1 := if is_read q && match f with NoFault => false | _ => true end then set_kf m1 0 else m1 in
            let m1 := if is_read q && match f with NoFault => false | _ => true end && in_pay_wait x cid then set_kf m1 1 else m1 in
            (* C08: an applied Free only when nothing is pending or complete; an applied Succeeded holds a preimage of the hash *)
            let applied := negb (option_eqb (pair_eqb dsval_eqb N.eqb) (ds (mh_nd x)) (ds n')) in
            let m1 := match q with
                      | QWriteState _ _ DFree => viol i P08 (negb applied || negb (busy n')) m1
                      | QWriteState _ _ (DSucc p) => viol i P08 (negb applied || preimage_ok w h p) m1
                      | _ => m1 end in
            (* N3: pay must not be "applied but error" *)
            match q, f with QPay _ _ _ _ _, AppliedButError => set_bad m1 | _, _ => m1 end
        | _ => set_bad m
        end
    | GHang uid =>
        (* the handler of this HTLC went away: it still counts for the set's amount, but nobody can answer it any more *)
        set_held m (map (fun s => if hd_uid s =? uid then {| hd_uid := hd_uid s; hd_h := hd_h s; hd_rq := hd_rq s; hd_t := hd_t s; hd_time := hd_time s; hd_hung := true |} else s) (m_held m))
    | GTimeout h cid =>
        (* a legitimate "timed out" answer to a wait that carried a timeout: the part stays pending, no fault is recorded *)
        let x := get_h m h in
        match mcall_get x cid with
        | Some {| mc_q := (QWaitPart pid) as q; mc_st := MUnproc |} =>
            match nth_error (parts (mh_nd x)) pid with
            | Some PPend => set_h m h (upd_h x (mh_nd x) (mcall_put cid {| mc_q := q; mc_st := MReplied YErr |} (mh_calls x)))
            | _ => set_bad m
            end
        | _ => set_bad m
        end
    | GEv h (EvDeliver cid _) =>
        let x := get_h m h in
        match mcall_get x cid with
        | Some {| mc_q := q; mc_st := MReplied y |} =>
            let fetch' := match q, y with
                          | QListState, YState None | QListState, YState (Some (DFree, _)) =>
                              match mh_fetch x with None => Some (m_now m, true) | f => f end
                          | QListState, _ => match mh_fetch x with None => Some (m_now m, false) | f => f end
                          | _, _ => mh_fetch x end in
            let fund' := match q with QPay _ _ _ _ _ => None | _ => mh_funding x end in
            set_h m h {| mh_nd := mh_nd x; mh_calls := mcall_put cid {| mc_q := q; mc_st := MDone |} (mh_calls x);
                         mh_last_deliver := m_now m; mh_doomed := mh_doomed x; mh_any_reject := mh_any_reject x; mh_attempted := mh_attempted x;
                         mh_fetch := fetch'; mh_started := mh_started x; mh_funding := fund'; mh_first := mh_first x; mh_snap := mh_snap x |}
        | _ => set_bad m
        end
    | GEv h (EvPart pid st) =>
        let x := get_h m h in
        match nth_error (parts (mh_nd x)) pid, st with
        | Some PPend, PDone p =>
            let m1 := set_h m h (upd_h x (set_parts (mh_nd x) (upd pid st (parts (mh_nd x)))) (mh_calls x)) in
            if preimage_ok w h p then m1 else set_bad m1     (* N1 *)
        | Some PPend, PFailed => set_h m h (upd_h x (set_parts (mh_nd x) (upd pid st (parts (mh_nd x)))) (mh_calls x))
        | _, _ => set_bad m
        end
    | GEv h (EvPayNewPart cid) =>
        let x := get_h m h in
        match mcall_get x cid with
        | Some {| mc_q := QPay _ _ _ _ _; mc_st := MRunning |} =>
            set_h m h (upd_h x (set_parts (mh_nd x) (parts (mh_nd x) ++ [PPend])) (mh_calls x))
        | _ => set_bad m
        end
    | GEv h (EvPayFinish cid o) =>
        let x := get_h m h in
        match mcall_get x cid with
        | Some {| mc_q := (QPay _ _ _ _ _) as q; mc_st := MRunning |} =>
            let ok := match o with
                      | PayComplete p => existsb (fun s => match s with PDone p' => bytes_eq p p' | _ => false end) (parts (mh_nd x))   (* N1 *)
                      | PayFailed => negb (busy (mh_nd x))                                                                              (* N2 *)
                      | _ => true end in
            let m1 := set_h m h (upd_h x (set_payrun (mh_nd x) (payrun (mh_nd x) - 1)) (mcall_put cid {| mc_q := q; mc_st := MReplied (YPay o) |} (mh_calls x))) in
            if ok then m1 else set_bad m1
        | _ => set_bad m
        end
    | GEv _ _ => set_bad m
    | GTick dt =>
        {| m_hs := m_hs m; m_held := m_held m; m_answered := m_answered m; m_now := m_now m + dt; m_height := m_height m;
           m_viol := m_viol m; m_first := m_first m; m_kf := m_kf m; m_bad := m_bad m; m_stats := m_stats m |}
    | GHeight v =>
        {| m_hs := m_hs m; m_held := m_held m; m_answered := m_answered m; m_now := m_now m; m_height := v;
           m_viol := m_viol m; m_first := m_first m; m_kf := m_kf m; m_bad := m_bad m; m_stats := m_stats m |}
    | GCrash =>
        {| m_hs := map (fun hx => (fst hx,
                     {| mh_nd := set_payrun (mh_nd (snd hx)) 0;
                        mh_calls := map (fun cc => (fst cc, {| mc_q := mc_q (snd cc); mc_st := MDone |})) (mh_calls (snd hx));
                        mh_last_deliver := m_now m; mh_doomed := []; mh_any_reject := false; mh_attempted := mh_attempted (snd hx);
                        mh_fetch := None; mh_started := false; mh_funding := None; mh_first := None; mh_snap := None |})) (m_hs m);
           m_held := []; m_answered := m_answered m; m_now := m_now m; m_height := m_height m;
           m_viol := m_viol m; m_first := m_first m; m_kf := m_kf m; m_bad := m_bad m; m_stats := m_stats m |}
    end.

  (* ----- a pay request issued by the implementation ----- *)
  Definition check_pay (i : N) (m : mon) (h cid : nat) (q : rpc) : mon :=
    match q with
    | QPay bolt amount maxfee maxdelay retry =>
        let x := get_h m h in
        let set := held_of m h in
        let sigma := sum_amt set in
        let info := match set with s0 :: _ => Some (hd_t s0) | [] => None end in
        let deliver := match info with Some t => ti_amount t | None => 0 end in
        let n := mh_nd x in
        (* C01: never pay an invoice on behalf of an HTLC with another hash *)
        let m := viol i P01 (forallb (fun s => bytes_eq (r_hash (hd_rq s)) (hash_of w h) && bytes_eq (ti_hash (hd_t s)) (hash_of w h)) set
                             && match set with [] => false | _ => true end) m in
        (* C03: covered, right amount, within budget *)
        let m := viol i P03 ((deliver + fee_base pl + deliver * fee_ppm pl / 1000000 <=? sigma)
                             && (maxfee <=? sigma - deliver)
                             && match info with
                                | Some t => option_eqb N.eqb amount (match ti_inv_amount t with Some _ => None | None => Some (ti_amount t) end)
                                | None => false end) m in
        (* C11: no outgoing payment is started for a set that has not reached the required total *)
        let m := viol i P11 (deliver + fee_base pl + deliver * fee_ppm pl / 1000000 <=? sigma) m in
        (* C04: outgoing expiry safely before the incoming; and no pay for a doomed set *)
        let '(hgt0, minexp0) := match mh_snap x with Some v => v | None => (m_height m, min_exp set) end in
        let bound := (minexp0 - hgt0) - cltv_delta c in
        let m := viol i P04 ((maxdelay <=? pol_delta pl) && (maxdelay <=? bound)) m in
        let doomed_now := existsb (fun s => existsb (N.eqb (hd_uid s)) (mh_doomed x)) set in
        let low_exp_doomed := existsb (fun s => existsb (N.eqb (hd_uid s)) (mh_doomed x) && (r_rel (hd_rq s) <? Z.of_N (pol_delta pl))%Z) set in
        let m := viol i P04 (negb low_exp_doomed) m in
        let m := viol i P07 (negb doomed_now) m in
        (* C05: one live attempt; never pay a paid invoice *)
        let m := viol i P05 (negb (busy n) && (payrun n =? 0) && negb (pay_outstanding x)
                             && match ds n with Some (DSucc _, _) => false | _ => true end) m in
        (* C08: the in-flight marker is durably written before the pay request is issued *)
        let m := viol i P08 (match ds n with Some (DPending _ _, _) => true | _ => false end) m in
        let x' := {| mh_nd := mh_nd x; mh_calls := mh_calls x; mh_last_deliver := mh_last_deliver x; mh_doomed := mh_doomed x;
                     mh_any_reject := mh_any_reject x; mh_attempted := mh_attempted x; mh_fetch := mh_fetch x; mh_started := true;
                     mh_funding := Some (cid, map hd_uid set); mh_first := mh_first x; mh_snap := mh_snap x |} in
        let m := set_h m h x' in
        {| m_hs := m_hs m; m_held := m_held m; m_answered := m_answered m; m_now := m_now m; m_height := m_height m;
           m_viol := m_viol m; m_first := m_first m; m_kf := m_kf m; m_bad := m_bad m; m_stats := m_stats m + 1 |}
    | QWriteState _ _ (DPending _ _) =>
        let x := get_h m h in
        set_h m h {| mh_nd := mh_nd x; mh_calls := mh_calls x; mh_last_deliver := mh_last_deliver x; mh_doomed := mh_doomed x;
                     mh_any_reject := mh_any_reject x; mh_attempted := mh_attempted x; mh_fetch := mh_fetch x; mh_started := true;
                     mh_funding := mh_funding x; mh_first := mh_first x; mh_snap := Some (m_height m, min_exp (held_of m h)) |}
    | _ => m
    end.

  (* ----- a response given by the implementation ----- *)
  Variable reqs : list request.   (* every HTLC delivered in the trace *)
  Definition req_of (uid : N) : option request := find (fun rq => r_id rq =? uid) reqs.

  Definition check_resp (i : N) (m0 m : mon) (uid : N) (r : response) : mon :=
    (* m0: state at the start of the output phase (who was held), m: running state *)
    let m := viol i P06 (negb (existsb (N.eqb uid) (m_answered m))) m in
    match find (fun s => hd_uid s =? uid) (m_held m) with
    | None =>
        (* not a held trampoline HTLC for the monitor: whatever it is, a settle needs a preimage of ITS hash *)
        let m := match r, req_of uid with
                 | Resolve k, Some rq => viol i P01 (match sha_of w k with Some hh => bytes_eq hh (r_hash rq) | None => false end) m
                 | Resolve k, None => viol i P01 false m
                 | _, _ => m end in
        {| m_hs := m_hs m; m_held := m_held m; m_answered := uid :: m_answered m; m_now := m_now m; m_height := m_height m;
           m_viol := m_viol m; m_first := m_first m; m_kf := m_kf m; m_bad := m_bad m; m_stats := m_stats m |}
    | Some s =>
        let h := hd_h s in
        let x := get_h m h in
        let n := mh_nd x in
        let m :=
          match r with
          | Resolve k =>
              (* C01: a preimage of the HTLC's own hash, from a completed part or the durable record *)
              viol i P01 (match sha_of w k with Some hh => bytes_eq hh (r_hash (hd_rq s)) | None => false end
                          && (existsb (fun p => match p with PDone p' => bytes_eq k p' | _ => false end) (parts n)
                              || match ds n with Some (DSucc p', _) => bytes_eq k p' | _ => false end)) m
          | Fail msg =>
              (* C02: once an attempt exists, fail only when nothing is pending/complete and no pay is running or outstanding *)
              let m := viol i P02 (negb (mh_attempted x) || (negb (busy n) && (payrun n =? 0) && negb (pay_outstanding x))) m in
              (* C12: a fee-or-expiry failure carries exactly the configured policy *)
              let m := viol i P12 (match msg with 32 :: 26 :: _ => bytes_eq msg (encode_failure (TrampolineFeeOrExpiryInsufficient pl)) | _ => true end) m in
              (* C12: first HTLC of a payment with no earlier attempt on record, rejected by the gates *)
              let m := viol i P12 (match mh_first x, mh_fetch x with
                                   | Some (u, true), Some (_, true) =>
                                       negb (u =? uid) || (mpp_ms c =? 0) || response_eqb r (r_fee_fail c)
                                   | _, _ => true end) m in
              (* C11: not before the timeout (no earlier attempt, no rejection, nothing started) *)
              viol i P11 (negb (response_eqb r r_tramp_fail)
                          || match mh_fetch x with
                             | Some (t0, true) => mh_any_reject x || mh_started x || (t0 + mpp_ms c <=? m_now m)
                             | _ => true end) m
          | Continue _ => viol i P06 false m   (* a held trampoline HTLC is never answered `continue` *)
          end in
        (* C03: the HTLCs funding an outstanding pay stay held *)
        let m := viol i P03 (match mh_funding x with Some (_, us) => negb (existsb (N.eqb uid) us) | None => true end) m in
        {| m_hs := m_hs m; m_held := filter (fun s' => negb (hd_uid s' =? uid)) (m_held m); m_answered := uid :: m_answered m;
           m_now := m_now m; m_height := m_height m; m_viol := m_viol m; m_first := m_first m; m_kf := m_kf m; m_bad := m_bad m; m_stats := m_stats m |}
    end.

  Definition mon_out (i : N) (m0 : mon) (m : mon) (o : gout) : mon :=
    match o with
    | GCall h cid q =>
        let m := check_pay i m h cid q in
        let x := get_h m h in
        set_h m h (upd_h x (mh_nd x) (mcall_put cid {| mc_q := q; mc_st := MUnproc |} (mh_calls x)))
    | GCancel h cid =>
        let x := get_h m h in
        match mcall_get x cid with
        | Some cl => set_h m h (upd_h x (mh_nd x) (mcall_put cid {| mc_q := mc_q cl; mc_st := MDone |} (mh_calls x)))
        | None => m
        end
    | GResp uid r => check_resp i m0 m uid r
    | GDecodeErr uid => m
    | GPanic => if has_bit (m_kf m) 0 then m else viol i P06 false m
    | GNotify _ => m
    | GOther => m
    end.

  (* ----- after the step ----- *)
  Definition resp_of (outs : list gout) (uid : N) : option response :=
    match find (fun o => match o with GResp u _ => u =? uid | _ => false end) outs with
    | Some (GResp _ r) => Some r | _ => None end.

  (* C07: if any held HTLC of hash h was answered in this step, all of them were, identically *)
  Definition check_c07 (i : N) (m0 : mon) (outs : list gout) (m : mon) : mon :=
    fold_left (fun acc hx =>
      let h := fst hx in
      let set := live_held (held_of m0 h) in
      let rs := map (fun s => resp_of outs (hd_uid s)) set in
      match filter (fun r => match r with Some _ => true | None => false end) rs with
      | [] => acc
      | Some r0 :: _ => viol i P07 (forallb (fun r => match r with Some r' => response_eqb r' r0 | None => false end) rs) acc
      | None :: _ => acc
      end) (m_hs m0) m.

  Definition mon_after (i : N) (m : mon) : mon :=
    fold_left (fun acc hx =>
      let h := fst hx in let x := snd hx in
      (* C08: busy => hot, at every instant *)
      let acc := viol i P08 (negb (busy (mh_nd x)) || hot (mh_nd x)) acc in
      (* C06/C11: a set whose lifecycle waits on nothing but its timer is answered within one MPP timeout *)
      let waiting := match live_held (held_of acc h) with [] => false | _ => true end in
      let late := waiting && negb (outstanding x) && (mh_last_deliver x + mpp_ms c <=? m_now acc)
 in
      if has_bit (m_kf acc) 0 then acc else viol i P06 (negb late) (viol i P11 (negb late) acc))
    (m_hs m) m.

  (* a burst registers its HTLCs one after the other; each sees only the answers addressed to it *)
  Definition mon_event (i : N) (m : mon) (ev : gevent) (outs : list gout) : mon :=
    match ev with
    | GBurst rqs =>
        fold_left (fun acc rq => mon_event1 i acc (GHtlc rq)
                                   (filter (fun o => match o with GResp u _ => u =? r_id rq | _ => false end) outs)) rqs m
    | _ => mon_event1 i m ev outs
    end.

  Definition mon_step (i : N) (m : mon) (st : tstep) : mon :=
    (* the HTLC delivered in this step counts as held during the output phase *)
    let m1 := mon_event i m (t_ev st) (t_out st) in
    let m2 := fold_left (mon_out i m1) (t_out st) m1 in
    let m3 := check_c07 i m1 (t_out st) m2 in
    (* a set that was answered in this step is gone, the hung-up members with it *)
    let done_hs := map hd_h (filter (fun s => match resp_of (t_out st) (hd_uid s) with Some _ => true | None => false end) (live_held (m_held m1))) in
    let m4 := set_held m3 (filter (fun s => negb (hd_hung s && existsb (Nat.eqb (hd_h s)) done_hs)) (m_held m3)) in
    mon_after i m4.

  Fixpoint mon_run (i : N) (m : mon) (tr : list tstep) : mon :=
    match tr with
    | [] => m
    | st :: r => mon_run (i + 1) (mon_step (i + 1) m st) r
    end.
End Monitor.

Definition mon0 (w : world) : mon :=
  {| m_hs := map (fun x => (fst x, mhash0 (snd x))) (w_init w); m_held := []; m_answered := []; m_now := 0; m_height := 0;
     m_viol := 0; m_first := 0; m_kf := 0; m_bad := false; m_stats := 0 |}.

(* End-of-trace obligations. [finale]: the harness appended a cooperative drain, so every HTLC must be answered (C06).
   [probe_from]: uids from this one on belong to the C09 probe; the last of them must be settled with a preimage. *)
Definition mon_final (w : world) (finale : bool) (probe_from : option N) (tr : list tstep) : mon :=
  let reqs := flat_map (fun st => match t_ev st with GHtlc rq => [rq] | GBurst rqs => rqs | _ => [] end) tr in
  let m := mon_run w reqs 0 (mon0 w) tr in
  let n := N.of_nat (length tr) in
  let m := if finale && negb (has_bit (m_kf m) 0) then viol n P06 (match live_held (m_held m) with [] => true | _ => false end) m else m in
  match probe_from with
  | None => m
  | Some u0 =>
      let probe_resps := flat_map (fun st => flat_map (fun o => match o with GResp u r => if u0 <=? u then [(u, r)] else [] | _ => [] end) (t_out st)) tr in
      let last_ok := match rev probe_resps with (_, Resolve _) :: _ => true | _ => false end in
      if has_bit (m_kf m) 0 then m else viol n P09 last_ok m
  end.

(* one verdict list per trace: [malformed; first output mismatch step; first reply mismatch step; violation mask;
   first violation step; kf mask; pay calls; steps] *)
Definition sys_verdict (w : world) (finale : bool) (probe_from : option N) (tr : list tstep) : list N :=
  let k := run_corr w tr in
  let m := mon_final w finale probe_from tr in
  [ (if m_bad m then 1 else 0); k_out k; k_reply k; m_viol m; m_first m; m_kf m; m_stats m; N.of_nat (length tr) ].
