(* TlvCheck.v — correspondence cases and monitors for the TLV codec (C18; reused by C13/C06). *)
From Tramp Require Import Model.Base Model.Tlv Check.Common.

Definition oentries := list (N * list N).
Definition to_obs (es : list tlv_entry) : oentries := map (fun e => (typ e, value e)) es.
Definition of_obs (es : oentries) : list tlv_entry := map (fun p => {| typ := fst p; value := snd p |}) es.

Definition oentries_eqb : oentries -> oentries -> bool := list_eqb (pair_eqb N.eqb bytes_eqb).

Definition map_res {A B} (f : A -> B) (r : res A) : res B :=
  match r with Ok a => Ok (f a) | Err => Err | Panic => Panic end.

(* observation of a decode case *)
Record dobs := {
  o_fb : res oentries;                 (* from_bytes *)
  o_enc : option (list N);             (* to_bytes of the decoded stream *)
  o_get16 : option (option (list N));  (* get(16) on the decoded stream *)
  o_rem16 : option (list N);           (* to_bytes after remove(16) *)
  o_tf : res oentries;                 (* try_from (length-prefixed) *)
  o_tu : res N                         (* get_tu64 on the whole buffer *)
}.

Definition model_dobs (chk : bool) (bs : list N) : dobs :=
  let fb := from_bytes chk bs in
  {| o_fb := map_res to_obs fb;
     o_enc := match fb with Ok es => Some (to_bytes es) | _ => None end;
     o_get16 := match fb with Ok es => Some (option_map value (tlv_get 16 es)) | _ => None end;
     o_rem16 := match fb with Ok es => Some (to_bytes (tlv_remove 16 es)) | _ => None end;
     o_tf := map_res to_obs (try_from chk bs);
     o_tu := get_tu64 bs |}.

Definition dobs_eqb (a b : dobs) : bool :=
  res_eqb oentries_eqb (o_fb a) (o_fb b) &&
  option_eqb bytes_eqb (o_enc a) (o_enc b) &&
  option_eqb (option_eqb bytes_eqb) (o_get16 a) (o_get16 b) &&
  option_eqb bytes_eqb (o_rem16 a) (o_rem16 b) &&
  res_eqb oentries_eqb (o_tf a) (o_tf b) &&
  res_eqb N.eqb (o_tu a) (o_tu b).

(* ---- decidable BOLT grammar (minimal BigSize), used by the monitor ---- *)
Definition bigsize_dec (bs : list N) : option (N * list N) :=
  match bs with
  | [] => None
  | b :: r =>
      if b <? 253 then Some (b, r)
      else if b =? 253 then
        match r with
        | b1 :: b2 :: r' => let v := be_val [b1; b2] in
                            if bytes_okb [b1; b2] && (253 <=? v) then Some (v, r') else None
        | _ => None end
      else if b =? 254 then
        match r with
        | b1 :: b2 :: b3 :: b4 :: r' => let v := be_val [b1; b2; b3; b4] in
                            if bytes_okb [b1; b2; b3; b4] && (65536 <=? v) then Some (v, r') else None
        | _ => None end
      else if b =? 255 then
        match r with
        | b1 :: b2 :: b3 :: b4 :: b5 :: b6 :: b7 :: b8 :: r' =>
            let v := be_val [b1; b2; b3; b4; b5; b6; b7; b8] in
            if bytes_okb [b1; b2; b3; b4; b5; b6; b7; b8] && (4294967296 <=? v) then Some (v, r') else None
        | _ => None end
      else None
  end.

Fixpoint valid_streamb_fuel (fuel : nat) (bs : list N) : bool :=
  match fuel with
  | O => false
  | S f =>
      match bs with
      | [] => true
      | _ => match bigsize_dec bs with
             | Some (t, r1) =>
                 match bigsize_dec r1 with
                 | Some (l, r2) =>
                     if len r2 <? l then false
                     else bytes_okb (firstn (N.to_nat l) r2) && valid_streamb_fuel f (skipn (N.to_nat l) r2)
                 | None => false end
             | None => false end
      end
  end.
Definition valid_streamb (bs : list N) : bool := valid_streamb_fuel (S (length bs)) bs.

(* ---- monitors: the C18 statement evaluated on an observation ---- *)
Definition no_panic_obs (o : dobs) : bool :=
  negb (is_panic (o_fb o)) && negb (is_panic (o_tf o)) && negb (is_panic (o_tu o)).

Definition roundtrip_obs (bs : list N) (o : dobs) : bool :=
  if valid_streamb bs then
    match o_fb o, o_enc o with
    | Ok _, Some e => bytes_eqb e bs
    | _, _ => false
    end
  else true.

Definition tu64_obs (bs : list N) (o : dobs) : bool :=
  if len bs <=? 8 then res_eqb N.eqb (o_tu o) (Ok (be_val bs))
  else res_eqb N.eqb (o_tu o) Err.

Definition monitor_d (bs : list N) (o : dobs) : bool :=
  no_panic_obs o && roundtrip_obs bs o && tu64_obs bs o.

(* shape: 0 empty, 1 valid non-empty stream, 2 decodes but not valid (non-minimal / trailing byte),
   3 decode error, 4 panic (in the model) *)
Definition shape_d (bs : list N) (m : dobs) : N :=
  match bs with [] => 0 | _ =>
  if valid_streamb bs then 1 else
  match o_fb m with Ok _ => 2 | Err => 3 | Panic => 4 end end.

Definition verdict_d (bs : list N) (impl : dobs) : N :=
  let m := model_dobs true bs in
  verdict (negb (dobs_eqb m impl)) (negb (monitor_d bs impl)) false (negb (bytes_okb bs)) (shape_d bs m).

(* encode case: entries -> bytes -> entries *)
Definition wf_entryb (e : N * list N) : bool :=
  (fst e <? two64) && (len (snd e) <? two64) && bytes_okb (snd e).

Definition verdict_e (es : oentries) (impl_enc : option (list N)) (impl_dec_eq : option bool) : N :=
  let m := to_bytes (of_obs es) in
  let corr := option_eqb bytes_eqb (Some m) impl_enc in
  let mon := match impl_dec_eq with Some true => true | _ => false end in
  verdict (negb corr) (negb mon) false (negb (forallb wf_entryb es)) (match es with [] => 0 | [_] => 1 | _ => 2 end).
