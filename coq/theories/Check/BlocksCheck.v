(* BlocksCheck.v — correspondence and monitor for the BlockWatcher (C20). *)
From Tramp Require Import Model.Base Model.Blocks Check.Common.

(* per step: event, height the implementation reports afterwards, number of getinfo calls it issued in the step, whether start() failed *)
Definition bobs := (bevent * N * N * bool)%type.

Fixpoint breplay (s : bsys) (tr : list bobs) (i : N) (maxtold : N) (acc_corr acc_mon : N) : N * N :=
  match tr with
  | [] => (acc_corr, acc_mon)
  | (ev, h, ncalls, stopped) :: r =>
      let '(s', o) := bstep s ev in
      let told_here := match ev, b_phase s with
                       | BvReply (Some v), BStarting | BvReply (Some v), BPolling => N.max maxtold v
                       | BvNotify v, BSleeping _ | BvNotify v, BPolling => N.max maxtold v
                       | _, _ => maxtold end in
      let corr_ok := (b_height s' =? h) && (N.of_nat (length o) =? ncalls)
                     && Bool.eqb stopped (match b_phase s' with BStopped => true | _ => false end) in
      (* the property on the implementation's own observation: its height is the max of what it was told *)
      let mon_ok := (h =? told_here) in
      breplay s' r (i + 1) told_here (if (acc_corr =? 0) && negb corr_ok then i + 1 else acc_corr)
                                     (if (acc_mon =? 0) && negb mon_ok then i + 1 else acc_mon)
  end.

Definition blocks_verdict (tr : list bobs) : list N :=
  let '(c, m) := breplay bsys0 tr 0 0 0 0 in [c; m; N.of_nat (length tr)].
