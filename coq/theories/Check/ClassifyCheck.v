(* ClassifyCheck.v — correspondence cases and monitors for the stateless classification
   (C10, C13): the real check_htlc (+ the forward_msat test) against Model/Classify.v. *)
From Tramp Require Import Model.Base Model.Tlv Model.Fee Model.Classify Check.Common.

Inductive cobs :=
| ODecodeErr                          (* serde could not decode the request *)
| OResp (r : response)
| OTramp (blob hash payee : list N) (amount : N) (inv_amount : option N) (policy : N * N * N)
| OPanic.

Definition response_eqb (a b : response) : bool :=
  match a, b with
  | Continue p, Continue q => option_eqb bytes_eq p q
  | Fail m, Fail m' => bytes_eq m m'
  | Resolve k, Resolve k' => bytes_eq k k'
  | _, _ => false
  end.

Definition oracle_of (l : list (list N * invoice_view)) (b : list N) : option invoice_view :=
  match find (fun x => bytes_eq (fst x) b) l with Some x => Some (snd x) | None => None end.

Definition model_cobs (o : list (list N * invoice_view)) (c : ccfg) (rq : request) : cobs :=
  match try_from true (r_payload rq) with
  | Err => ODecodeErr
  | Panic => OPanic
  | Ok es =>
      match classify_entries (oracle_of o) true c rq es with
      | CResp r => OResp r
      | CTramp t => OTramp (ti_blob t) (ti_hash t) (ti_payee t) (ti_amount t) (ti_inv_amount t)
                           (fee_base (c_policy c), fee_ppm (c_policy c), pol_delta (c_policy c))
      | CPanic => OPanic
      end
  end.

Definition cobs_eqb (a b : cobs) : bool :=
  match a, b with
  | ODecodeErr, ODecodeErr => true
  | OResp r, OResp r' => response_eqb r r'
  | OTramp b1 h1 p1 a1 i1 (x1, y1, z1), OTramp b2 h2 p2 a2 i2 (x2, y2, z2) =>
      bytes_eq b1 b2 && bytes_eq h1 h2 && bytes_eq p1 p2 && (a1 =? a2) && option_eqb N.eqb i1 i2 && (x1 =? x2) && (y1 =? y2) && (z1 =? z2)
  | OPanic, OPanic => true
  | _, _ => false
  end.

(* the amount field as C10 reads it: well-formed = 0..8 bytes *)
Definition amount_field (mes : list tlv_entry) : option (option N) :=
  match tlv_get TLV_TRAMPOLINE_AMOUNT mes with
  | None => None
  | Some ab => Some (if len (value ab) <=? 8 then Some (be_val (value ab)) else None)
  end.

(* C10 on the implementation's observation *)
Definition monitor_c10 (o : list (list N * invoice_view)) (c : ccfg) (rq : request) (obs : cobs) : bool :=
  match obs with
  | OTramp blob hash payee amount inv_amount _ =>
      match try_from true (r_payload rq) with
      | Ok es =>
          match tlv_get TLV_PAYMENT_METADATA es with
          | Some md =>
              match from_bytes true (value md) with
              | Ok mes =>
                  match tlv_get TLV_TRAMPOLINE_INVOICE mes with
                  | Some ib =>
                      bytes_eq (value ib) blob &&
                      match oracle_of o blob with
                      | Some iv =>
                          iv_sig_ok iv && bytes_eq (iv_hash iv) (r_hash rq) && bytes_eq hash (iv_hash iv)
                          && match iv_recovered iv with Some k => bytes_eq k payee | None => false end
                          && option_eqb N.eqb inv_amount (iv_amount iv)
                          && match iv_amount iv, amount_field mes with
                             | Some a, Some (Some b) => (a =? b) && (amount =? a)
                             | Some a, _ => amount =? a
                             | None, Some (Some b) => amount =? b
                             | None, _ => false
                             end
                          && (negb (existsb (bytes_eq (c_local c)) (iv_last_hops iv)) || c_allow_self c)
                          && negb (r_scid rq) && match r_forward rq with Some _ => true | None => false end
                      | None => false
                      end
                  | None => false
                  end
              | _ => false
              end
          | None => false
          end
      | _ => false
      end
  | OPanic => false
  | _ => true
  end.

(* second clause of C10: self as last hop of a hint, disallowed, otherwise valid => failed, not paid *)
Definition self_hint_case (o : list (list N * invoice_view)) (c : ccfg) (rq : request) : bool :=
  match try_from true (r_payload rq) with
  | Ok es =>
      negb (r_scid rq) &&
      match extract (oracle_of o) true rq es with
      | XInfo t => match oracle_of o (ti_blob t) with
                   | Some iv => existsb (bytes_eq (c_local c)) (iv_last_hops iv) && negb (c_allow_self c)
                   | None => false end
      | _ => false
      end
  | _ => false
  end.
Definition monitor_c10_self (o : list (list N * invoice_view)) (c : ccfg) (rq : request) (obs : cobs) : bool :=
  if self_hint_case o c rq then cobs_eqb obs (OResp (Fail (encode_failure TemporaryNodeFailure))) else true.

(* C13 on the implementation's observation: a request the model does not classify as trampoline is answered
   `continue`; a rewritten payload is the original stream minus the first payment-metadata record *)
Definition monitor_c13 (o : list (list N * invoice_view)) (c : ccfg) (rq : request) (obs : cobs) : bool :=
  match model_cobs o c rq with
  | OResp (Continue _) | ODecodeErr =>
      match obs with
      | ODecodeErr => true
      | OResp (Continue None) => true
      | OResp (Continue (Some bs)) =>
          match try_from true (r_payload rq) with
          | Ok es => bytes_eq bs (to_bytes (tlv_remove TLV_PAYMENT_METADATA es))
          | _ => false
          end
      | _ => false
      end
  | _ => true
  end.

(* shape: 0 decode error, 1 continue without rewrite, 2 continue with rewrite, 3 fail, 4 trampoline *)
Definition cshape (m : cobs) : N :=
  match m with ODecodeErr => 0 | OResp (Continue None) => 1 | OResp (Continue (Some _)) => 2 | OResp _ => 3 | OTramp _ _ _ _ _ _ => 4 | OPanic => 5 end.

Definition verdict_classify (prop : N) (x : list (list N * invoice_view) * ccfg * request * cobs) : N :=
  let '(o, c, rq, obs) := x in
  let m := model_cobs o c rq in
  let mon := if prop =? 10 then monitor_c10 o c rq obs && monitor_c10_self o c rq obs else monitor_c13 o c rq obs in
  verdict (negb (cobs_eqb m obs)) (negb mon) false false (cshape m).
