(* ProviderCheck.v — correspondence and monitors for wait_payment / pay alone (C15, C16). *)
From Tramp Require Import Model.Base Model.Node Model.Provider Model.ProviderSys Check.Common.

Definition bytes_eq := list_eq_N.
Definition rpc_shape_eqb (a b : rpc) : bool :=
  match a, b with
  | QListPend, QListPend | QListDone, QListDone => true
  | QWaitPart p, QWaitPart p' => Nat.eqb p p'
  | QPay _ a f d r, QPay _ a' f' d' r' => option_eqb N.eqb a a' && (f =? f') && (d =? d') && (r =? r')
  | _, _ => false
  end.
Definition reply_eqb (a b : reply) : bool :=
  match a, b with
  | YPids l, YPids l' => list_eqb Nat.eqb l l'
  | YPres l, YPres l' => list_eqb bytes_eq l l'
  | YPre p, YPre p' => bytes_eq p p'
  | YPartFailed, YPartFailed => true
  | YErr, YErr => true
  | _, _ => false
  end.
Definition pres_eqb (a b : pres) : bool :=
  match a, b with POk p, POk q => bytes_eq p q | PNone, PNone | PErr, PErr => true | _, _ => false end.

Record pstep_obs := {
  po_ev : option pevent;                 (* None = the start step *)
  po_calls : list rpc;                   (* RPCs the implementation issued in this step, in order *)
  po_cancels : list nat;
  po_reply : option (option reply);      (* simulated node's reply for a process event *)
  po_timeout : bool                      (* the process event is the node's legitimate "timed out" answer to a wait that carried a
                                            timeout (only changed code passes one): an error reply for the model, but not a fault *)
}.

Definition cancelled_ids (cs : list call) : list nat :=
  (fix go (i : nat) (l : list call) := match l with [] => [] | c :: r => match c_st c with Cancelled => i :: go (S i) r | _ => go (S i) r end end) 0%nat cs.

Definition subset_nat (a b : list nat) : bool := forallb (fun x => existsb (Nat.eqb x) b) a.

(* result: first mismatching step (1-based; 0 = none) *)
Fixpoint preplay (s : psys) (tr : list pstep_obs) (i : N) (seen_cancel : list nat) : N * psys :=
  match tr with
  | [] => (0, s)
  | st :: r =>
      let s' := match po_ev st with Some ev => pstep s ev | None => s end in
      let new_model := skipn (length (ps_calls s)) (ps_calls s') in
      let new_model := match po_ev st with None => ps_calls s' | _ => new_model end in
      let calls_ok := list_eqb rpc_shape_eqb (map c_rpc new_model) (po_calls st) in
      let canc' := po_cancels st ++ seen_cancel in
      let cancel_ok := subset_nat (cancelled_ids (ps_calls s')) canc' && subset_nat canc' (cancelled_ids (ps_calls s')) in
      let reply_ok := match po_ev st, po_reply st with
                      | Some (PvProcess cid _), Some y =>
                          match nth_error (ps_calls s) cid, nth_error (ps_calls s') cid with
                          | Some {| c_rpc := _; c_st := Unprocessed |}, Some {| c_rpc := _; c_st := Replied y' |} => option_eqb reply_eqb y (Some y')
                          | Some {| c_rpc := _; c_st := Unprocessed |}, Some _ => option_eqb reply_eqb y None
                                                                                   || match nth_error (ps_calls s') cid with Some {| c_rpc := QPay _ _ _ _ _; c_st := _ |} => true | _ => false end
                          | _, _ => false
                          end
                      | _, _ => true end in
      if calls_ok && cancel_ok && reply_ok then preplay s' r (i + 1) canc' else (i + 1, s')
  end.

Definition final_res (s : psys) : option pres := match ps_st s with SFin r => Some r | _ => None end.

(* the property on the implementation's result, judged against the node's parts when it returned *)
Definition monitor_result (wait_mode : bool) (final_parts : list pstat) (kf_read_fault : bool) (impl : option pres) : bool :=
  match impl with
  | None => true
  | Some (POk p) => existsb (fun st => match st with PDone p' => bytes_eq p p' | _ => false end) final_parts
  | Some PNone => negb (busyb final_parts)      (* wait_payment: Ok(None) *)
  | Some PErr => wait_mode || kf_read_fault || negb (busyb final_parts)   (* pay: Err only when final (or a read failed: known class) *)
  end.

Definition has_read_fault (init : psys) (tr : list pstep_obs) : bool :=
  snd (fold_left (fun acc st =>
         let '(s, b) := acc in
         match po_ev st with
         | Some ev => (pstep s ev, b || (negb (no_read_fault s ev) && negb (po_timeout st)))
         | None => acc end) tr (init, false)).

(* verdict: [malformed; first mismatch step; result mismatch; monitor fail; read fault in trace; shape] *)
Definition provider_verdict (wait_mode : bool) (parts0 : list pstat) (q : rpc) (tr : list pstep_obs) (impl_res : option pres) : list N :=
  let init := if wait_mode then {| ps_nd := ps_nd (wait_init parts0); ps_calls := []; ps_st := SWait (WListP 0) |}
              else {| ps_nd := ps_nd (pay_init parts0 q); ps_calls := []; ps_st := SPay 0 |} in
  let init_full := if wait_mode then wait_init parts0 else pay_init parts0 q in
  (* the start step: the model's initial calls must be what the implementation issued at start *)
  let '(k, s) := match tr with
                 | st0 :: r => if list_eqb rpc_shape_eqb (map c_rpc (ps_calls init_full)) (po_calls st0)
                               then preplay init_full r 1 [] else (1, init_full)
                 | [] => (1, init_full) end in
  let wf := (fix go (s : psys) (l : list pstep_obs) := match l with [] => true | st :: r => match po_ev st with Some ev => pwf s ev && go (pstep s ev) r | None => go s r end end) init_full tr in
  let rf := has_read_fault init_full tr in
  let model_res := final_res s in
  (* in pay mode the implementation's Err does not say whether it was final or a read error: compare modulo that *)
  let norm := fun r => if wait_mode then r else match r with PNone => PErr | x => x end in
  let res_ok := option_eqb pres_eqb (option_map norm model_res) (option_map norm impl_res) in
  (* parts at the end, driven by the events only *)
  let final_parts := parts (ps_nd (fold_left (fun s st => match po_ev st with Some ev => pstep s ev | None => s end) tr init_full)) in
  [ (if wf then 0 else 1); k; (if res_ok then 0 else 1);
    (if monitor_result wait_mode final_parts rf impl_res then 0 else 1); (if rf then 1 else 0);
    match impl_res with None => 0 | Some (POk _) => 1 | Some PNone => 2 | Some PErr => 3 end ].
