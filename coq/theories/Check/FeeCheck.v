(* FeeCheck.v — correspondence cases and monitor for fee_sufficient / failure encoding (C12). *)
From Tramp Require Import Model.Base Model.Fee Check.Common Proofs.FeeProofs.

Definition fee_case := (N * N * N * N * N * res bool * list N * list N * list N)%type.

(* shape: 1 total within 1 of the exact threshold; 2 exact right-hand side above 64 bits;
   3 product overflows 64 bits (the known-finding class); 0 otherwise *)
Definition verdict_fee (c : fee_case) : N :=
  let '(base, ppm, delta, total, amount, suf, enc, nodef, trampf) := c in
  let p := {| fee_base := base; fee_ppm := ppm; pol_delta := delta |} in
  let model := Ok (fee_sufficient p total amount) in
  let exact := fee_exact p total amount in
  let kf := kf_mul_overflow p amount in
  let thr := amount + base + amount * ppm / 1000000 in
  let corr := res_eqb Bool.eqb model suf
              && bytes_eqb enc (encode_failure (TrampolineFeeOrExpiryInsufficient p))
              && bytes_eqb nodef (encode_failure TemporaryNodeFailure)
              && bytes_eqb trampf (encode_failure TemporaryTrampolineFailure) in
  (* the property's statement on the implementation's observation *)
  let mon := res_eqb Bool.eqb suf (Ok exact)
             && bytes_eqb enc ([32; 26] ++ be_enc 4 base ++ be_enc 4 ppm ++ be_enc 2 delta) in
  let malformed := negb ((base <=? u32max) && (ppm <=? u32max) && (delta <=? u16max) && (total <=? u64max) && (amount <=? u64max)) in
  let shape := if kf then 3 else if u64max <? thr then 2 else if (thr <=? total + 1) && (total <=? thr + 1) then 1 else 0 in
  verdict (negb corr) (negb mon) kf malformed shape.
