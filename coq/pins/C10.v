From Tramp Require Import Model.Base Model.Tlv Model.Fee Model.Classify Proofs.ClassifyProofs Props.C10.
Check C10_sound : forall (parse : list N -> option invoice_view) (c : ccfg) (rq : request) (t : tramp_info),
  classify parse true c rq = CTramp t ->
  exists es md mes ib iv,
    try_from true (r_payload rq) = Ok es /\
    tlv_get TLV_PAYMENT_METADATA es = Some md /\ from_bytes true (value md) = Ok mes /\
    tlv_get TLV_TRAMPOLINE_INVOICE mes = Some ib /\ ti_blob t = value ib /\ parse (value ib) = Some iv /\
    iv_sig_ok iv = true /\ iv_hash iv = r_hash rq /\ ti_hash t = iv_hash iv /\ ti_payee t = iv_payee iv /\
    ti_inv_amount t = iv_amount iv /\ amount_rule iv mes (ti_amount t) /\
    (self_is_last_hop c iv = true -> c_allow_self c = true) /\
    r_scid rq = false /\ r_forward rq <> None.
Check C10_self_hint : forall parse c rq es t iv,
  try_from true (r_payload rq) = Ok es -> r_scid rq = false ->
  extract parse true rq es = XInfo t -> parse (ti_blob t) = Some iv ->
  self_is_last_hop c iv = true -> c_allow_self c = false ->
  classify parse true c rq = CResp (Fail (encode_failure TemporaryNodeFailure)).
Check C10_no_panic : forall parse c rq, classify parse true c rq <> CPanic.
Print Assumptions C10_sound.
Print Assumptions C10_self_hint.
Print Assumptions C10_no_panic.
Print Assumptions C10_pinned_refuted.
