From Tramp Require Import Model.Base Model.Sys Check.SysCheck Props.C14.
Check C14_event_is_local : forall w g h ev sel,
  let ev' := match ev with EvDeliver c _ => EvDeliver c sel | x => x end in
  get_comp (fst (gstep w g (GEv h ev) sel)) h = fst (step (w_cfg w) (get_comp g h) ev') /\
  snd (gstep w g (GEv h ev) sel) = map (lift_out h) (snd (step (w_cfg w) (get_comp g h) ev')) /\
  forall h', h <> h' -> get_comp (fst (gstep w g (GEv h ev) sel)) h' = get_comp g h'.
Print Assumptions C14_event_is_local.
Print Assumptions C14_htlc_is_local.
Print Assumptions C14_global_events_pointwise.
