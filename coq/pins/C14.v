From Tramp Require Import Model.Base Model.Sys Check.SysCheck Proofs.IsolationRun Props.C14.
Check C14_event_is_local : forall w g h ev sel,
  let ev' := match ev with EvDeliver c _ => EvDeliver c sel | x => x end in
  get_comp (fst (gstep w g (GEv h ev) sel)) h = fst (step (w_cfg w) (get_comp g h) ev') /\
  snd (gstep w g (GEv h ev) sel) = map (lift_out h) (snd (step (w_cfg w) (get_comp g h) ev')) /\
  forall h', h <> h' -> get_comp (fst (gstep w g (GEv h ev) sel)) h' = get_comp g h'.
Check C14_noninterference : forall w h evs1 evs2 g1 g2,
  forallb no_burst evs1 = true -> forallb no_burst evs2 = true ->
  view w h evs1 = view w h evs2 -> same_for h g1 g2 ->
  same_for h (grun w g1 evs1) (grun w g2 evs2).
Check C14_alone_or_among_others : forall w h evs g,
  forallb no_burst evs = true -> same_for h (grun w g evs) (grun w g (view w h evs)).
Check (eq_refl : concerns = fun w h ev =>
  match ev with
  | GHtlc rq => match gclassify w rq with KTramp h' _ => Nat.eqb h' h | _ => false end
  | GEv h' _ | GTimeout h' _ => Nat.eqb h' h
  | GTick _ | GHeight _ | GCrash => true
  | GHang _ | GBurst _ => false
  end).
Check (eq_refl : view = fun w h evs => filter (fun x => concerns w h (fst x)) evs).
Check (eq_refl : same_for = fun h g1 g2 => get_comp g1 h = get_comp g2 h /\ gnow g1 = gnow g2 /\ gheight g1 = gheight g2).
Check (eq_refl : grun = fun w g evs => fold_left (fun g x => fst (gstep w g (fst x) (snd x))) evs g).
Print Assumptions C14_event_is_local.
Print Assumptions C14_htlc_is_local.
Print Assumptions C14_global_events_pointwise.
Print Assumptions C14_noninterference.
Print Assumptions C14_alone_or_among_others.
