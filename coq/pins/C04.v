From Tramp Require Import Model.Base Model.Fee Model.Classify Model.Node Model.Provider Model.Sys.
From Tramp Require Import Proofs.SysBasics Proofs.EntryProofs Proofs.SysEntry Proofs.SysShape Proofs.SysTheorems Proofs.SysTimers Proofs.SysReach Props.C04.
Check C04_initiation : forall c s ev cid a t,
  reachable c s -> In (OCall cid (QWriteState CreateOrReplace None (DPending a t))) (snd (step c s ev)) ->
  exists en fq i x am mf md,
    entry_seen c s ev = Some en /\
    entry_ (pl (fst (step c s ev))) = Some (set_queues en false fq) /\
    nth_error (lcs (pl (fst (step c s ev)))) i = Some x /\ l_pc x = PAdd1 cid a am mf md /\
    md = N.min (clamp16 ((min_expiry (listeners en) - height s) - cltv_delta c)) (pol_delta (pol c)) /\
    md <= pol_delta (pol c) /\ md <= (min_expiry (listeners en) - height s) - cltv_delta c /\
    t = now s /\ a = next_att (pl s).
Check C04_doomed_never_paid : forall c s ev,
  reachable c s -> Doomed s ->
  (forall cid q, In (OCall cid q) (snd (step c s ev)) -> is_attempt_start q = false) /\
  (entry_ (pl (fst (step c s ev))) = None \/ Doomed (fst (step c s ev))).
Print Assumptions C04_initiation.
Print Assumptions C04_values_travel.
Print Assumptions C04_capped_at_pay.
Print Assumptions C04_low_expiry_rejects.
Print Assumptions C04_doomed_never_paid.
