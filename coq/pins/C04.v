From Tramp Require Import Model.Base Model.Sys Props.C04.
Print Assumptions C04_placeholder.
