From Tramp Require Import Model.Base Model.Node Model.Provider Model.ProviderSys Proofs.ProviderProofs Proofs.ProviderTyped Proofs.ProviderLive Props.C15.
Check C15_wait : forall (parts0 : list pstat) (evs : list pevent),
  hist_ok (wait_init parts0) evs = true ->
  let s := prun (wait_init parts0) evs in
  forall r, ps_st s = SFin r ->
  match r with
  | POk p => In (PDone p) (parts (ps_nd s))
  | PNone => forall i st, nth_error (parts (ps_nd s)) i = Some st -> st = PFailed
  | PErr => True
  end.
Check C15_part_failure_does_not_abort : forall base aw cid,
  (exists pid' cid', In (pid', cid') aw /\ cid' <> cid) ->
  existsb (fun x => Nat.eqb (snd x) cid) aw = true ->
  exists rest, wait_deliver base (WParts aw) cid YPartFailed = Some (WGo (WParts rest) []) /\ rest <> []
               /\ forall pid' cid', In (pid', cid') rest <-> In (pid', cid') aw /\ cid' <> cid.
Check C15_error_only_after_a_read_error : forall (parts0 : list pstat) (evs : list pevent),
  hist_ok (wait_init parts0) evs = true -> hist_clean (wait_init parts0) evs = true ->
  ps_st (prun (wait_init parts0) evs) <> SFin PErr.
Check C15_returns_within_bounded_steps : forall (parts0 : list pstat) (evs : list pevent),
  hist_ok (wait_init parts0) evs = true ->
  (forall k e, nth_error evs k = Some e -> peffective (prun (wait_init parts0) (firstn k evs)) e) ->
  waiting (prun (wait_init parts0) evs) <> None ->
  (length evs <= ppot (wait_init parts0))%nat.
Check C15_never_at_rest_before_returning : forall (parts0 : list pstat) (evs : list pevent) w,
  hist_ok (wait_init parts0) evs = true ->
  waiting (prun (wait_init parts0) evs) = Some w ->
  exists ev, pwf (prun (wait_init parts0) evs) ev = true /\ peffective (prun (wait_init parts0) evs) ev.
Check (eq_refl : peffective = fun s ev => pstep s ev <> s).
Check (eq_refl : waiting = fun s => match ps_st s with SWait w | SPayWait w => Some w | _ => None end).
Print Assumptions C15_wait.
Print Assumptions C15_invariant_everywhere.
Print Assumptions C15_part_failure_does_not_abort.
Print Assumptions C15_between_queries.
Print Assumptions C15_error_only_after_a_read_error.
Print Assumptions C15_returns_within_bounded_steps.
Print Assumptions C15_never_at_rest_before_returning.
