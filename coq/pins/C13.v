From Tramp Require Import Model.Base Model.Tlv Model.Fee Model.Classify Model.Sys Proofs.TlvProofs Check.SysCheck Props.C13.
Check C13_no_effect : forall (w : world) (g : gsys) (rq : request) (r : response) (sel : bool),
  gclassify w rq = KResp r -> gstep w g (GHtlc rq) sel = (g, [GResp (r_id rq) r]).
Check C13_answer_shape : forall parse c rq r,
  classify parse true c rq = CResp r ->
  r = Continue None \/ r = Fail (encode_failure TemporaryNodeFailure) \/
  exists es, try_from true (r_payload rq) = Ok es /\ r = Continue (Some (to_bytes (tlv_remove TLV_PAYMENT_METADATA es))).
Check C13_forward_never_tramp : forall parse c rq t,
  classify parse true c rq = CTramp t -> r_scid rq = false /\ r_forward rq <> None.
Print Assumptions C13_no_effect.
Print Assumptions C13_decode_error_no_effect.
Print Assumptions C13_answer_shape.
Print Assumptions C13_forward_never_tramp.
Print Assumptions C13_rewrite_only_strips.
Print Assumptions C13_valid_stream_bytes.
