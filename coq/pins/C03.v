From Tramp Require Import Model.Base Model.Sys Props.C03.
Print Assumptions C03_placeholder.
