From Tramp Require Import Model.Base Model.Fee Model.Classify Model.Node Model.Provider Model.Sys.
From Tramp Require Import Proofs.SysBasics Proofs.EntryProofs Proofs.SysEntry Proofs.SysShape Proofs.SysTheorems Proofs.SysTimers Proofs.SysReach Props.C03.
Check C03_pay_covered : forall c s ev cid b am mf md rt,
  reachable c s -> In (OCall cid (QPay b am mf md rt)) (snd (step c s ev)) ->
  exists en, entry_ (pl s) = Some en /\ entry_ (pl (fst (step c s ev))) = Some en /\
    e_deliver en + fee_base (pol c) + e_deliver en * fee_ppm (pol c) / 1000000 <= sum_amt (listeners en) /\
    mf <= sum_amt (listeners en) - e_deliver en /\
    am = match e_inv_amount en with Some _ => None | None => Some (e_deliver en) end /\
    b = e_blob en /\ rt = retry_for c /\ md <= pol_delta (pol c) /\
    resps (snd (step c s ev)) = [].
Check C03_held_until_fate : forall c s ev i x k a g,
  reachable c s -> nth_error (lcs (pl s)) i = Some x -> l_pc x = PPay k a g ->
  resps (snd (step c s ev)) <> [] -> exists sel, ev = EvDeliver k sel.
Print Assumptions C03_pay_covered.
Print Assumptions C03_held_until_fate.
Print Assumptions C03_received_is_saturated_sum.
