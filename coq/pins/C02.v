From Tramp Require Import Model.Base Model.Fee Model.Classify Model.Node Model.Provider Model.ProviderSys Model.Sys.
From Tramp Require Import Proofs.SysBasics Proofs.SysShape Proofs.SysTheorems Proofs.SysReach Proofs.SysCalls Proofs.SysNode Proofs.SysSafety Proofs.SysLive Proofs.SysTerm Props.C02.
Check C02_fail_only_when_nothing_live : forall c n t0 h0 a0 evs ev h m,
  node_ok n -> hist_wf true c (sys_start n t0 h0 a0) evs ->
  let s := after c n t0 h0 a0 evs in
  In (OResp h (Fail m)) (snd (step c s ev)) ->
  all_failed (parts (nd s)) /\ payrun (nd s) = 0.
Check C02_held_while_pending : forall c n t0 h0 a0 evs ev h m pid,
  node_ok n -> hist_wf true c (sys_start n t0 h0 a0) evs ->
  let s := after c n t0 h0 a0 evs in
  nth_error (parts (nd s)) pid = Some PPend -> ~ In (OResp h (Fail m)) (snd (step c s ev)).
Check C02_never_failed_after_completion : forall c n t0 h0 a0 evs evs' ev p h m,
  node_ok n -> hist_wf true c (sys_start n t0 h0 a0) (evs ++ evs') ->
  has_done p (parts (nd (after c n t0 h0 a0 evs))) ->
  ~ In (OResp h (Fail m)) (snd (step c (after c n t0 h0 a0 (evs ++ evs')) ev)).
Check C02_completed_is_settled : forall c n t0 h0 a0 evs en h p0,
  node_ok n -> hist_wf true c (sys_start n t0 h0 a0) evs ->
  let s := after c n t0 h0 a0 evs in
  has_done p0 (parts (nd s)) -> entry_ (pl s) = Some en -> In h (listeners en) -> Settled c (hid h) s.
Check C02_completed_is_settled_on_every_run : forall c n t0 h0 a0 evs evs' p,
  node_ok n -> hist_wf true c (sys_start n t0 h0 a0) (evs ++ evs') ->
  has_done p (parts (nd (after c n t0 h0 a0 evs))) ->
  (forall k ev h m, nth_error evs' k = Some ev ->
     ~ In (OResp h (Fail m)) (snd (step c (after c n t0 h0 a0 (evs ++ firstn k evs')) ev))) /\
  (let s' := after c n t0 h0 a0 (evs ++ evs') in
   (forall ev, progress_ev s' ev = true -> ev_wf true s' ev -> ~ seffective c s' ev) -> entry_ (pl s') = None).
Print Assumptions C02_completed_is_settled.
(* the hypotheses, spelled out so that they cannot be strengthened unnoticed *)
Check (eq_refl : node_ok = fun n => payrun n = 0 /\ (busy n -> hot n) /\ forall g, ds n <> Some (DGarbage, g)).
Check (eq_refl : ev_wf = fun strict s ev => match ev with
  | EvProcess cid f =>
      f = NoFault \/ forall cl, nth_error (calls s) cid = Some cl -> is_read (c_rpc cl) = false \/ (strict = false /\ ~ pay_wait_call s cid)
  | EvPayFinish _ (PayComplete p) => has_done p (parts (nd s))
  | EvPayFinish _ PayFailed => all_failed (parts (nd s))
  | _ => True end).
(* at the strict level used by C02 that is: no injected error on any read rpc *)
Check (ev_wf_strict : forall s cid f, ev_wf true s (EvProcess cid f) <-> (f = NoFault \/ forall cl, nth_error (calls s) cid = Some cl -> is_read (c_rpc cl) = false)).
Print Assumptions C02_fail_only_when_nothing_live.
Print Assumptions C02_held_while_pending.
Print Assumptions C02_never_failed_after_completion.
Print Assumptions C02_restart_settles_or_waits.
Print Assumptions C02_completed_is_settled_on_every_run.
