From Tramp Require Import Model.Base Model.Sys Props.C02.
Print Assumptions C02_placeholder.
