From Tramp Require Import Model.Base Model.Sys Props.C05.
Print Assumptions C05_placeholder.
