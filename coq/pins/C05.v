From Tramp Require Import Model.Base Model.Fee Model.Classify Model.Node Model.Provider Model.ProviderSys Model.Sys.
From Tramp Require Import Proofs.SysBasics Proofs.SysShape Proofs.SysTheorems Proofs.SysReach Proofs.SysCalls Proofs.SysNode Proofs.SysSafety Props.C05.
Check C05_pay_only_when_nothing_live : forall c n t0 h0 a0 evs ev cid b am mf md rt,
  node_ok n -> hist_wf false c (sys_start n t0 h0 a0) evs ->
  let s := after c n t0 h0 a0 evs in
  In (OCall cid (QPay b am mf md rt)) (snd (step c s ev)) ->
  all_failed (parts (nd s)) /\ payrun (nd s) = 0.
Check C05_one_pay_at_a_time : forall c n t0 h0 a0 evs k1 k2 cl1 cl2,
  node_ok n -> hist_wf false c (sys_start n t0 h0 a0) evs ->
  let s := after c n t0 h0 a0 evs in
  nth_error (calls s) k1 = Some cl1 -> nth_error (calls s) k2 = Some cl2 ->
  is_pay (c_rpc cl1) = true -> is_pay (c_rpc cl2) = true -> live (c_st cl1) -> live (c_st cl2) -> k1 = k2.
Check C05_paid_never_paid_again : forall c n t0 h0 a0 evs evs' ev p cid b am mf md rt,
  node_ok n -> hist_wf false c (sys_start n t0 h0 a0) (evs ++ evs') ->
  has_done p (parts (nd (after c n t0 h0 a0 evs))) ->
  ~ In (OCall cid (QPay b am mf md rt)) (snd (step c (after c n t0 h0 a0 (evs ++ evs')) ev)).
Check C05_settled_from_record : forall c li base tnow k pr g,
  lc_shape c li base tnow (PFetch k) k (YState (Some (DSucc pr, g))) = Some (LResolve (Resolve pr) PEnd [] []).
Print Assumptions C05_pay_only_when_nothing_live.
Print Assumptions C05_one_pay_at_a_time.
Print Assumptions C05_paid_never_paid_again.
Print Assumptions C05_settled_from_record.
Print Assumptions C05_nonvacuous.
