From Tramp Require Import Model.Base Model.Sys Props.C11.
Print Assumptions C11_placeholder.
