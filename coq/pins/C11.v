From Tramp Require Import Model.Base Model.Fee Model.Classify Model.Node Model.Provider Model.Sys.
From Tramp Require Import Proofs.SysBasics Proofs.EntryProofs Proofs.SysEntry Proofs.SysShape Proofs.SysTheorems Proofs.SysTimers Proofs.SysReach Props.C11.
Check C11_deadline_window : forall c s i x dl,
  reachable c s -> nth_error (lcs (pl s)) i = Some x -> l_pc x = PSelect dl -> now s < dl /\ dl <= now s + mpp_ms c.
Check C11_at_timeout : forall c s dt en i x dl,
  entry_ (pl s) = Some en -> nth_error (lcs (pl s)) i = Some x -> l_pc x = PSelect dl -> dl <= now s + dt ->
  resps (snd (step c s (EvTick dt))) = map (fun h => OResp (hid h) r_tramp_fail) (listeners en) /\
  entry_ (pl (fst (step c s (EvTick dt)))) = None /\
  (forall cid q, ~ In (OCall cid q) (snd (step c s (EvTick dt)))).
Check C11_no_pay_below_total : forall c s ev en,
  reachable c s -> entry_ (pl s) = Some en ->
  sum_amt (listeners en) < e_deliver en + fee_base (pol c) + e_deliver en * fee_ppm (pol c) / 1000000 ->
  forall cid b am mf md rt, ~ In (OCall cid (QPay b am mf md rt)) (snd (step c s ev)).
Print Assumptions C11_deadline_window.
Print Assumptions C11_not_before.
Print Assumptions C11_at_timeout.
Print Assumptions C11_restart_bound.
Print Assumptions C11_no_pay_below_total.
