From Tramp Require Import Model.Base Model.Node Model.Provider Model.ProviderSys Proofs.ProviderProofs Props.C16.
Check C16_pay : forall (parts0 : list pstat) (b : list N) (a : option N) (f d rt : N) (evs : list pevent),
  hist_ok (pay_init parts0 (QPay b a f d rt)) evs = true ->
  let s := prun (pay_init parts0 (QPay b a f d rt)) evs in
  forall r, ps_st s = SFin r ->
  match r with
  | POk p => In (PDone p) (parts (ps_nd s))
  | PNone => (forall i st, nth_error (parts (ps_nd s)) i = Some st -> st = PFailed) /\ payrun (ps_nd s) = 0
  | PErr => True
  end.
Print Assumptions C16_pay.
Print Assumptions C16_err_only_from_read_error.
Print Assumptions C16_needs_N2.
Print Assumptions C16_nonvacuous.
