From Tramp Require Import Model.Base Model.Node Model.Provider Model.ProviderSys Proofs.ProviderProofs Proofs.ProviderTyped Proofs.ProviderLive Props.C16.
Check C16_pay : forall (parts0 : list pstat) (b : list N) (a : option N) (f d rt : N) (evs : list pevent),
  hist_ok (pay_init parts0 (QPay b a f d rt)) evs = true ->
  let s := prun (pay_init parts0 (QPay b a f d rt)) evs in
  forall r, ps_st s = SFin r ->
  match r with
  | POk p => In (PDone p) (parts (ps_nd s))
  | PNone => (forall i st, nth_error (parts (ps_nd s)) i = Some st -> st = PFailed) /\ payrun (ps_nd s) = 0
  | PErr => True
  end.
Check C16_failure_is_final_without_read_errors : forall (parts0 : list pstat) (b : list N) (a : option N) (f d rt : N) (evs : list pevent),
  hist_ok (pay_init parts0 (QPay b a f d rt)) evs = true ->
  hist_clean (pay_init parts0 (QPay b a f d rt)) evs = true ->
  let s := prun (pay_init parts0 (QPay b a f d rt)) evs in
  forall r, ps_st s = SFin r ->
  match r with
  | POk p => In (PDone p) (parts (ps_nd s))
  | PNone | PErr => (forall i st, nth_error (parts (ps_nd s)) i = Some st -> st = PFailed) /\ payrun (ps_nd s) = 0
  end.
(* the fault-freedom hypothesis is pinned as a definition *)
Check (eq_refl : hist_clean = fix hist_clean (s : psys) (evs : list pevent) {struct evs} : bool :=
  match evs with [] => true | ev :: r => no_read_fault s ev && hist_clean (pstep s ev) r end).
Check C16_fallback_wait_returns : forall (parts0 : list pstat) (b : list N) (a : option N) (f d rt : N) (evs0 evs : list pevent),
  hist_ok (pay_init parts0 (QPay b a f d rt)) evs0 = true ->
  let s := prun (pay_init parts0 (QPay b a f d rt)) evs0 in
  waiting s <> None ->
  hist_ok s evs = true ->
  (forall k e, nth_error evs k = Some e -> peffective (prun s (firstn k evs)) e) ->
  waiting (prun s evs) <> None ->
  (length evs <= ppot s)%nat.
Check C16_fallback_wait_never_at_rest : forall (parts0 : list pstat) (b : list N) (a : option N) (f d rt : N) (evs0 : list pevent) w,
  hist_ok (pay_init parts0 (QPay b a f d rt)) evs0 = true ->
  let s := prun (pay_init parts0 (QPay b a f d rt)) evs0 in
  waiting s = Some w -> exists ev, pwf s ev = true /\ peffective s ev.
Print Assumptions C16_pay.
Print Assumptions C16_err_only_from_read_error.
Print Assumptions C16_needs_N2.
Print Assumptions C16_nonvacuous.
Print Assumptions C16_failure_is_final_without_read_errors.
Print Assumptions C16_fallback_wait_returns.
Print Assumptions C16_fallback_wait_never_at_rest.
