From Tramp Require Import Model.Base Model.Fee Model.Classify Model.Node Model.Provider Model.ProviderSys Model.Sys.
From Tramp Require Import Proofs.SysBasics Proofs.SysShape Proofs.SysTheorems Proofs.SysReach Proofs.SysCalls Proofs.SysNode Proofs.SysSafety Proofs.SysRecover Proofs.SysLive Proofs.SysTerm Proofs.SysCoop Proofs.SysAccount Props.C09.
Check C09_crash_image_is_a_start_image : forall c n t0 h0 a0 evs,
  node_ok n -> hist_wf false c (sys_start n t0 h0 a0) evs ->
  node_ok (nd (fst (step c (after c n t0 h0 a0 evs) EvCrash))).
Check C09_never_wedged : forall c n t0 h0 a0 h (p : list N),
  funded c h -> mpp_ms c <> 0 -> node_ok n -> (forall i, nth_error (parts n) i <> Some PPend) ->
  mem_att a0 (atts n) = false -> (forall a t g, ds n = Some (DPending a t, g) -> a0 <> a) ->
  exists evs,
    (exists p', In [OResp (hid h) (Resolve p')] (map resps (snd (run c (sys_start n t0 h0 a0) evs)))) \/
    (In [OResp (hid h) r_tramp_fail] (map resps (snd (run c (sys_start n t0 h0 a0) evs))) /\
     free_view (ds (nd (fst (run c (sys_start n t0 h0 a0) evs)))) /\ parts (nd (fst (run c (sys_start n t0 h0 a0) evs))) = parts n).
Check C09_never_wedged_whatever_the_pending_parts_do : forall c n t0 h0 a0 h (p : list N) (res : nat -> pstat),
  funded c h -> mpp_ms c <> 0 -> node_ok n -> (forall i, res i <> PPend) ->
  mem_att a0 (atts n) = false -> (forall a t g, ds n = Some (DPending a t, g) -> a0 <> a) ->
  exists evs,
    (exists p', In [OResp (hid h) (Resolve p')] (map resps (snd (run c (sys_start n t0 h0 a0) evs)))) \/
    (In [OResp (hid h) r_tramp_fail] (map resps (snd (run c (sys_start n t0 h0 a0) evs))) /\
     free_view (ds (nd (fst (run c (sys_start n t0 h0 a0) evs)))) /\
     parts (nd (fst (run c (sys_start n t0 h0 a0) evs))) = resolve_with res 0 (parts n)).
Check C09_interrupted_failed_is_marked_failed_and_paid : forall c n t0 h0 a0 h a t g p,
  funded c h -> ds n = Some (DPending a t, g) -> pend_ids 0 (parts n) = [] -> done_pres (parts n) = [] ->
  (mpp_ms c - (t0 - t) =? 0) = false -> a0 <> a -> mem_att a0 (atts n) = false ->
  In [OResp (hid h) (Resolve p)]
     (map resps (snd (run c (sys_start n t0 h0 a0) (recover_schedule h ++ pay_schedule_from 5 (length (parts n)) p)))).
Check C09_aged_next_set_is_paid : forall c n t0 h0 a0 h h2 a t g p,
  funded c h -> funded c h2 -> mpp_ms c <> 0 -> ds n = Some (DPending a t, g) -> pend_ids 0 (parts n) = [] -> done_pres (parts n) = [] ->
  (mpp_ms c - (t0 - t) =? 0) = true -> a0 <> a -> mem_att a0 (atts n) = false ->
  In [OResp (hid h2) (Resolve p)]
     (map resps (snd (run c (sys_start n t0 h0 a0) (recover_schedule h ++ second_schedule h2 (length (parts n)) p)))).
Check C09_markfailed_write_never_refused : forall n a am b,
  snd (node_exec n (QWriteAtt CreateOrReplace a true false am b) NoFault) = Some YUnit.
Check C09_cooperative_runs_never_fail : forall c B Dl T n t0 h0 a0 evs,
  mpp_ms c <> 0 -> node_ok n ->
  (forall a, mem_att a (atts n) = true -> a < a0) ->
  (forall a t g, ds n = Some (DPending a t, g) -> a < a0 /\ T - t < mpp_ms c) ->
  t0 <= T -> T - t0 < mpp_ms c ->
  hist_wf true c (sys_start n t0 h0 a0) evs -> hist_coop c B Dl T (sys_start n t0 h0 a0) evs ->
  forall o h m, In o (snd (run c (sys_start n t0 h0 a0) evs)) -> ~ In (OResp h (Fail m)) o.
Check C09_cooperative_run_at_rest_has_settled_everything : forall c B Dl T n t0 h0 a0 pre h post,
  mpp_ms c <> 0 -> node_ok n ->
  (forall a, mem_att a (atts n) = true -> a < a0) ->
  (forall a t g, ds n = Some (DPending a t, g) -> a < a0 /\ T - t < mpp_ms c) ->
  t0 <= T -> T - t0 < mpp_ms c ->
  let evs := pre ++ EvHtlc h :: post in
  hist_wf true c (sys_start n t0 h0 a0) evs -> hist_coop c B Dl T (sys_start n t0 h0 a0) evs -> ~ In EvCrash post ->
  let s := after c n t0 h0 a0 evs in
  (forall ev, progress_ev s ev = true -> ev_wf true s ev -> ~ seffective c s ev) ->
  exists o pr, In o (snd (run c (sys_start n t0 h0 a0) evs)) /\ In (OResp (hid h) (Resolve pr)) o.
Check C09_cooperative_step : forall c B Dl T s ev,
  mpp_ms c <> 0 -> wreach true c s -> K c B Dl T s -> ev_coop c B Dl T s ev ->
  K c B Dl T (fst (step c s ev)) /\ forall h m, ~ In (OResp h (Fail m)) (snd (step c s ev)).
(* what "cooperative" means is pinned too *)
Check (eq_refl : ev_coop = fun c B Dl T s ev =>
  match ev with
  | EvHtlc h => good_htlc c B Dl h
  | EvProcess _ f => f = NoFault
  | EvPayFinish _ o => exists p, o = PayComplete p
  | EvTick dt => now s + dt <= T
  | _ => True
  end).
Check (eq_refl : good_htlc = fun c B Dl h =>
  blob h = B /\ deliver h = Dl /\ (rel h <? Z.of_N (pol_delta (pol c)))%Z = false /\ fee_sufficient (pol c) (total h) (deliver h) = true).
Check (eq_refl : hist_coop = fun c B Dl T => fix hist_coop (s : sys) (evs : list event) {struct evs} : Prop :=
  match evs with [] => True | ev :: r => ev_coop c B Dl T s ev /\ hist_coop (fst (step c s ev)) r end).
Print Assumptions C09_crash_image_is_a_start_image.
Print Assumptions C09_never_wedged.
Print Assumptions C09_free_image_pays.
Print Assumptions C09_succeeded_image_settles_from_record.
Print Assumptions C09_interrupted_completed_settles.
Print Assumptions C09_interrupted_failed_is_marked_failed_and_paid.
Print Assumptions C09_aged_fails_once_then_free.
Print Assumptions C09_aged_next_set_is_paid.
Print Assumptions C09_markfailed_write_never_refused.
Print Assumptions C09_D4_image_recovers.
Print Assumptions C09_never_wedged_whatever_the_pending_parts_do.
Print Assumptions C09_cooperative_runs_never_fail.
Print Assumptions C09_cooperative_step.
Print Assumptions C09_cooperative_nonvacuous.
Print Assumptions C09_cooperative_run_at_rest_has_settled_everything.
Print Assumptions C09_cooperative_at_rest_nonvacuous.
