From Tramp Require Import Model.Base Model.Sys Props.C09.
Print Assumptions C09_placeholder.
