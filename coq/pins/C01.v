From Tramp Require Import Model.Base Model.Sys Props.C01.
Print Assumptions C01_placeholder.
