From Tramp Require Import Model.Base Model.Fee Model.Classify Model.Node Model.Provider Model.Sys.
From Tramp Require Import Proofs.SysPreimage Proofs.SysReach Check.SysCheck Props.C01.
Check C01_key : forall (good : list N -> Prop) c n t0 h0 a0 evs,
  node_good good n -> Forall (ev_good good) evs ->
  forall h p, In (OResp h (Resolve p)) (all_outs c (sys_start n t0 h0 a0) evs) -> good p.
Check C01_key_hashes_to_own_hash : forall (sha : list N -> list N) (H : list N) c n t0 h0 a0 evs,
  node_good (fun p => sha p = H) n -> Forall (ev_good (fun p => sha p = H)) evs ->
  forall h p, In (OResp h (Resolve p)) (all_outs c (sys_start n t0 h0 a0) evs) -> sha p = H.
Check C01_key_comes_from_completed_payment : forall c n t0 h0 a0 evs h p,
  In (OResp h (Resolve p)) (all_outs c (sys_start n t0 h0 a0) evs) -> In p (env_keys n evs).
Check C01_own_hash : forall (w : world) (rq : request) (h : nat) (t : tramp_info),
  gclassify w rq = KTramp h t -> hash_index w (r_hash rq) = Some h /\ ti_hash t = r_hash rq.
Print Assumptions C01_key.
Print Assumptions C01_key_hashes_to_own_hash.
Print Assumptions C01_key_comes_from_completed_payment.
Print Assumptions C01_own_hash.
