From Tramp Require Import Model.Base Model.Blocks Proofs.BlocksProofs Props.C20.
Check C20_max : forall (evs : list bevent), b_height (brun bsys0 evs) = fold_left N.max (told bsys0 evs) 0.
Check C20_never_decreases : forall (s : bsys) (evs : list bevent), b_height s <= b_height (brun s evs).
Check C20_catch_up : forall s v evs,
  b_phase s = BPolling \/ b_phase s = BStarting ->
  v <= b_height (brun (fst (bstep s (BvReply (Some v)))) evs).
Print Assumptions C20_max.
Print Assumptions C20_never_decreases.
Print Assumptions C20_poll_period.
Print Assumptions C20_catch_up.
Print Assumptions C20_poll_never_stops.
