From Tramp Require Import Model.Base Model.Blocks Proofs.BlocksProofs Props.C20.
Check C20_max : forall (evs : list bevent), b_height (brun bsys0 evs) = fold_left N.max (told bsys0 evs) 0.
Check C20_never_decreases : forall (s : bsys) (evs : list bevent), b_height s <= b_height (brun s evs).
Check C20_catch_up : forall s v evs,
  b_phase s = BPolling \/ b_phase s = BStarting ->
  v <= b_height (brun (fst (bstep s (BvReply (Some v)))) evs).
Check C20_poll_within_interval : forall pre evs d,
  b_phase (brun bsys0 pre) = BSleeping d -> POLL_MS <= ticks evs -> In BGetInfo (bouts (brun bsys0 pre) evs).
Check C20_deadline_window : forall evs, sleep_ok (brun bsys0 evs).
Check (eq_refl : sleep_ok = fun s => match b_phase s with BSleeping d => b_now s < d <= b_now s + POLL_MS | _ => True end).
Check (eq_refl : ticks = fix ticks (evs : list bevent) : N := match evs with [] => 0 | BvTick dt :: r => dt + ticks r | _ :: r => ticks r end).
Check (eq_refl : bouts = fix bouts (s : bsys) (evs : list bevent) {struct evs} : list bout :=
  match evs with [] => [] | ev :: r => snd (bstep s ev) ++ bouts (fst (bstep s ev)) r end).
Print Assumptions C20_max.
Print Assumptions C20_never_decreases.
Print Assumptions C20_poll_period.
Print Assumptions C20_catch_up.
Print Assumptions C20_poll_never_stops.
Print Assumptions C20_poll_within_interval.
Print Assumptions C20_deadline_window.
