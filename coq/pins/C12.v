From Tramp Require Import Model.Base Model.Fee Proofs.FeeProofs Props.C12.
Check C12_fee_exact : forall (m : build_mode) (p : policy) (total amount : N),
  total <= u64max -> kf_mul_overflow p amount = false ->
  fee_sufficient_gen true m p total amount = Ok (fee_exact p total amount).
Check C12_false_above_64_bits : forall (p : policy) (total amount : N),
  total <= u64max -> u64max < amount + fee_base p + amount * fee_ppm p / 1000000 ->
  fee_sufficient p total amount = false.
Check C12_class_is_conservative : forall p total amount,
  kf_mul_overflow p amount = true -> fee_sufficient p total amount = false.
Check C12_encoding : forall p : policy,
  encode_failure (TrampolineFeeOrExpiryInsufficient p) =
  [32; 26] ++ be_enc 4 (fee_base p) ++ be_enc 4 (fee_ppm p) ++ be_enc 2 (pol_delta p).
Check C12_encoding_injective : forall p : policy, policy_ok p ->
  decode_fee_failure (encode_failure (TrampolineFeeOrExpiryInsufficient p)) = Some p.
Print Assumptions C12_fee_exact.
Print Assumptions C12_false_above_64_bits.
Print Assumptions C12_class_is_conservative.
Print Assumptions C12_class_witness.
Print Assumptions C12_encoding.
Print Assumptions C12_encoding_injective.
