From Tramp Require Import Model.Base Model.Sys Props.C06.
Print Assumptions C06_placeholder.
