From Tramp Require Import Model.Base Model.Fee Model.Classify Model.Node Model.Provider Model.ProviderSys Model.Sys.
From Tramp Require Import Proofs.SysBasics Proofs.SysShape Proofs.SysTheorems Proofs.SysTimers Proofs.SysReach Proofs.SysCalls Proofs.SysNode Proofs.SysSafety Proofs.SysLive Proofs.SysTerm Proofs.SysAccount Props.C06.
From Coq Require Import Permutation.
Check C06_held_or_answered : forall c s h,
  (exists en, entry_ (pl (fst (step c s (EvHtlc h)))) = Some en /\ In h (listeners en)) \/
  (exists r, In (OResp (hid h) r) (snd (step c s (EvHtlc h)))).
Check C06_answered_together_once : forall c s ev,
  resps (snd (step c s ev)) = [] \/
  exists r, resps (snd (step c s ev)) = map (fun h => OResp (hid h) r) (held c s ev) /\ entry_ (pl (fst (step c s ev))) = None.
Check C06_no_panic : forall c n t0 h0 a0 evs ev,
  node_ok n -> hist_wf true c (sys_start n t0 h0 a0) evs ->
  let s := after c n t0 h0 a0 evs in
  ~ In OPanic (snd (step c s ev)) /\ forall i x, nth_error (lcs (pl s)) i = Some x -> l_pc x <> PPanicked.
Check C06_never_stuck : forall c n t0 h0 a0 evs e,
  node_ok n -> hist_wf true c (sys_start n t0 h0 a0) evs ->
  let s := after c n t0 h0 a0 evs in
  entry_ (pl s) = Some e ->
  exists i x, nth_error (lcs (pl s)) i = Some x /\ attached (l_pc x) = true /\
    ((exists d, l_pc x = PSelect d /\ now s < d /\ d <= now s + mpp_ms c) \/
     (awaits (l_pc x) <> [] /\ forall k, In k (awaits (l_pc x)) -> exists cl, nth_error (calls s) k = Some cl /\ live (c_st cl))).
Check C06_answered_at_deadline : forall c s dt en i x dl,
  entry_ (pl s) = Some en -> nth_error (lcs (pl s)) i = Some x -> l_pc x = PSelect dl -> dl <= now s + dt ->
  resps (snd (step c s (EvTick dt))) = map (fun h => OResp (hid h) r_tramp_fail) (listeners en) /\
  entry_ (pl (fst (step c s (EvTick dt)))) = None.
Check C06_poll_held_or_answered : forall c s sel en,
  entry_ (pl s) = Some en ->
  (exists en', entry_ (pl (fst (step c s (EvPoll sel)))) = Some en' /\ listeners en' = listeners en) \/
  (exists r, forall h, In h (listeners en) -> In (OResp (hid h) r) (snd (step c s (EvPoll sel)))).
Check C06_every_held_htlc_is_answered : forall c n t0 h0 a0 evs en h,
  node_ok n -> hist_wf true c (sys_start n t0 h0 a0) evs ->
  let s := after c n t0 h0 a0 evs in
  entry_ (pl s) = Some en -> In h (listeners en) -> Answered c (hid h) s.
Check C06_no_internal_divergence : forall c s evs,
  reachable c s -> forallb internal evs = true ->
  (forall k e, nth_error evs k = Some e -> seffective c (srun c s (firstn k evs)) e) ->
  (length evs <= phi s)%nat.
Check (eq_refl : internal = fun ev => match ev with EvProcess _ _ | EvDeliver _ _ | EvPoll _ => true | _ => false end).
Check (eq_refl : seffective = fun c s ev => fst (step c s ev) <> s).
Check C06_progress_runs_are_bounded : forall c s evs,
  reachable c s ->
  (forall k e, nth_error evs k = Some e -> progress_ev (srun c s (firstn k evs)) e = true /\ seffective c (srun c s (firstn k evs)) e) ->
  (length evs <= Phi c s)%nat.
Check C06_at_rest_means_all_answered : forall c n t0 h0 a0 evs,
  node_ok n -> hist_wf true c (sys_start n t0 h0 a0) evs ->
  let s := after c n t0 h0 a0 evs in
  (forall ev, progress_ev s ev = true -> ev_wf true s ev -> ~ seffective c s ev) -> entry_ (pl s) = None.
Check (eq_refl : progress_ev = fun s ev => match ev with
  | EvProcess _ _ | EvDeliver _ _ | EvPoll _ | EvPart _ _ | EvPayFinish _ _ => true | EvTick _ => timer_armed s | _ => false end).
Check C06_no_htlc_is_silently_dropped : forall c evs s h,
  In h (lis (entry_ (pl s))) \/ In (EvHtlc h) evs ->
  In h (lis (entry_ (pl (fst (run c s evs))))) \/ answered_in (hid h) (snd (run c s evs)) \/ In EvCrash evs.
Check (eq_refl : answered_in = fun x os => exists o r, In o os /\ In (OResp x r) o).
Check (eq_refl : lis = fun e => match e with Some en => listeners en | None => [] end).
Check C06_exactly_once_ledger : forall c evs s, ~ In EvCrash evs ->
  Permutation (run_resp_ids (snd (run c s evs)) ++ held_ids (fst (run c s evs))) (arrivals evs ++ held_ids s).
Check C06_nobody_is_answered_twice : forall c evs s,
  ~ In EvCrash evs -> NoDup (arrivals evs ++ held_ids s) -> NoDup (run_resp_ids (snd (run c s evs))).
Check (eq_refl : run_resp_ids = fun os => flat_map (fun o => flat_map (fun x => match x with OResp u _ => [u] | _ => [] end) o) os).
Check (eq_refl : held_ids = fun s => map hid (lis (entry_ (pl s)))).
Check (eq_refl : arrivals = fix arrivals (evs : list event) : list N :=
  match evs with [] => [] | EvHtlc h :: r => hid h :: arrivals r | _ :: r => arrivals r end).
Print Assumptions C06_every_held_htlc_is_answered.
Print Assumptions C06_held_or_answered.
Print Assumptions C06_poll_held_or_answered.
Print Assumptions C06_answered_together_once.
Print Assumptions C06_no_panic.
Print Assumptions C06_never_stuck.
Print Assumptions C06_answered_at_deadline.
Print Assumptions C06_no_internal_divergence.
Print Assumptions C06_progress_runs_are_bounded.
Print Assumptions C06_at_rest_means_all_answered.
Print Assumptions C06_no_htlc_is_silently_dropped.
Print Assumptions C06_exactly_once_ledger.
Print Assumptions C06_nobody_is_answered_twice.
