From Tramp Require Import Model.Base Model.Sys Props.C07.
Print Assumptions C07_placeholder.
