From Tramp Require Import Model.Base Model.Fee Model.Classify Model.Node Model.Provider Model.Sys.
From Tramp Require Import Proofs.SysBasics Proofs.EntryProofs Proofs.SysEntry Proofs.SysShape Proofs.SysTheorems Proofs.SysTimers Proofs.SysReach Props.C07.
Check C07_same_resolution : forall c s ev,
  resps (snd (step c s ev)) = [] \/
  exists r, resps (snd (step c s ev)) = map (fun h => OResp (hid h) r) (held c s ev) /\ entry_ (pl (fst (step c s ev))) = None.
Check C07_doomed_never_paid : forall c s ev,
  reachable c s -> Doomed s ->
  (forall cid q, In (OCall cid q) (snd (step c s ev)) -> is_attempt_start q = false) /\
  (entry_ (pl (fst (step c s ev))) = None \/ Doomed (fst (step c s ev))).
Print Assumptions C07_same_resolution.
Print Assumptions C07_rejection_dooms.
Print Assumptions C07_doomed_never_paid.
