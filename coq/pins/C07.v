From Tramp Require Import Model.Base Model.Fee Model.Classify Model.Node Model.Provider Model.Sys.
From Tramp Require Import Proofs.SysBasics Proofs.EntryProofs Proofs.SysEntry Proofs.SysShape Proofs.SysTheorems Proofs.SysTimers Proofs.SysReach Props.C07.
Check C07_same_resolution : forall c s ev,
  resps (snd (step c s ev)) = [] \/
  exists r, resps (snd (step c s ev)) = map (fun h => OResp (hid h) r) (held c s ev) /\ entry_ (pl (fst (step c s ev))) = None.
Check C07_doomed_never_paid : forall c s ev,
  reachable c s -> Doomed s ->
  (forall cid q, In (OCall cid q) (snd (step c s ev)) -> is_attempt_start q = false) /\
  (entry_ (pl (fst (step c s ev))) = None \/ Doomed (fst (step c s ev))).
Check C07_same_resolution_at_arrival : forall c s h sel,
  resps (snd (step_htlc c s h sel)) = [] \/
  exists r, resps (snd (step_htlc c s h sel)) = map (fun x => OResp (hid x) r) (h :: held c s (EvHtlc h)) /\ entry_ (pl (fst (step_htlc c s h sel))) = None.
Check (eq_refl : held = fun c s ev => match entry_ (pl s) with Some e => listeners e | None => [] end).
Print Assumptions C07_same_resolution.
Print Assumptions C07_same_resolution_at_arrival.
Print Assumptions C07_rejection_dooms.
Print Assumptions C07_doomed_never_paid.
