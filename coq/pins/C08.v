From Tramp Require Import Model.Base Model.Fee Model.Classify Model.Node Model.Provider Model.ProviderSys Model.Sys.
From Tramp Require Import Proofs.SysBasics Proofs.SysReach Proofs.SysPreimage Proofs.SysCalls Proofs.SysNode Proofs.SysSafety Props.C08.
Check C08_write_ahead : forall c n t0 h0 a0 evs,
  node_ok n -> hist_wf false c (sys_start n t0 h0 a0) evs ->
  let s := after c n t0 h0 a0 evs in
  busy (nd s) \/ payrun (nd s) <> 0 -> hot (nd s).
Check C08_free_only_when_nothing_live : forall c n t0 h0 a0 evs,
  node_ok n -> hist_wf false c (sys_start n t0 h0 a0) evs ->
  let s := after c n t0 h0 a0 evs in
  free_view (ds (nd s)) -> all_failed (parts (nd s)) /\ payrun (nd s) = 0.
Check C08_marker_before_pay : forall c n t0 h0 a0 evs ev cid b am mf md rt,
  node_ok n -> hist_wf false c (sys_start n t0 h0 a0) evs ->
  let s := after c n t0 h0 a0 evs in
  In (OCall cid (QPay b am mf md rt)) (snd (step c s ev)) -> hot (nd s).
Check C08_succeeded_record_holds_preimage : forall (good : list N -> Prop) c evs s,
  InvS good s -> Forall (ev_good good) evs ->
  forall p g, ds (nd (fst (run c s evs))) = Some (DSucc p, g) -> good p.
Check (eq_refl : busy = fun n => exists i st, nth_error (parts n) i = Some st /\ st <> PFailed).
Check (eq_refl : hot = fun n => match ds n with Some (v, _) => match v with DPending _ _ | DSucc _ => True | _ => False end | None => False end).
Print Assumptions C08_write_ahead.
Print Assumptions C08_free_only_when_nothing_live.
Print Assumptions C08_marker_before_pay.
Print Assumptions C08_succeeded_record_holds_preimage.
Print Assumptions C08_nonvacuous.
