From Tramp Require Import Model.Base Model.Sys Props.C08.
Print Assumptions C08_placeholder.
