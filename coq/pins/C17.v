From Tramp Require Import Model.Base Model.Codec Model.Driver Proofs.CodecProofs Proofs.DriverProofs Check.CodecCheck Props.C17.
From Coq Require Import Permutation.
Check C17_chunking : forall chunks : list (list N), feed [] chunks = frames (concat chunks).
Check C17_partition_independent : forall c1 c2 : list (list N), concat c1 = concat c2 -> feed [] c1 = feed [] c2.
Check C17_writer : forall ms : list (list N), Forall no_nl ms -> frames (concat (map encode ms)) = (ms, []).
Check C17_never_interleaved : forall (body : msg -> list N) (evs : list dev), (forall m, no_nl (body m)) ->
  let s := drun body evs dinit in
  exists p, frames (d_out s) = (map body (d_done s), p) /\
            match d_lock s with Some (_, m, x :: rest) => p ++ x :: rest = enc body m | _ => p = [] end.
Check C17_at_most_one_reply : forall (body : msg -> list N) (evs : list dev),
  let s := drun body evs dinit in
  NoDup (d_req s) -> NoDup (replies (d_done s)) /\ incl (replies (d_done s)) (d_req s).
Check C17_exactly_one_reply_when_quiet : forall (body : msg -> list N) (evs : list dev),
  let s := drun body evs dinit in
  quiescent s = true -> Permutation (d_req s) (replies (d_done s)) /\ Permutation (d_emit s) (logs (d_done s)).
Check C17_every_request_is_answered : forall (body : msg -> list N) (evs : list dev),
  exists more, forallb (fun e => negb (is_input e)) more = true /\
    let s := drun body (evs ++ more) dinit in
    quiescent s = true /\ Permutation (d_req s) (replies (d_done s)) /\ Permutation (d_emit s) (logs (d_done s)) /\
    d_req s = d_req (drun body evs dinit).
(* the driver loop is pinned as a definition: VDispatch and VRecv are disabled while the driver holds a reply or the lock *)
Check (eq_refl : driver_idle = fun s => match d_hold s, lock_owner s with None, Some WDriver => false | None, _ => true | Some _, _ => false end).
Print Assumptions C17_chunking.
Print Assumptions C17_partition_independent.
Print Assumptions C17_writer.
Print Assumptions C17_ids.
Print Assumptions C17_never_interleaved.
Print Assumptions C17_at_most_one_reply.
Print Assumptions C17_exactly_one_reply_when_quiet.
Print Assumptions C17_every_request_is_answered.
Check C17_forced_schedule_is_completion_order : forall n order,
  NoDup order -> (forall id, In id order -> id < N.of_nat n) ->
  run_driver n order = order ++ filter (fun id => negb (existsb (N.eqb id) order)) (map N.of_nat (seq 0 n)).
Print Assumptions C17_forced_schedule_is_completion_order.
Check C17_node_reads_whole_messages : forall (body : msg -> list N) (evs : list dev) (chunks : list (list N)),
  (forall m, no_nl (body m)) ->
  let s := drun body evs dinit in
  concat chunks = d_out s ->
  fst (feed [] chunks) = map body (d_done s).
Print Assumptions C17_node_reads_whole_messages.
Check C17_runs_without_input_are_bounded : forall (body : msg -> list N) (evs : list dev) (s : dst),
  forallb (fun e => negb (is_input e)) evs = true ->
  (forall k e, nth_error evs k = Some e -> effective body (drun body (firstn k evs) s) e) ->
  (length evs <= pot body s)%nat.
Check C17_nothing_left_to_do_means_all_answered : forall (body : msg -> list N) (s : dst),
  (forall e, is_input e = false -> ~ effective body s e) -> quiescent s = true.
Check (eq_refl : effective = fun body s e => dstepm body s e <> s).
Print Assumptions C17_runs_without_input_are_bounded.
Print Assumptions C17_nothing_left_to_do_means_all_answered.
