From Tramp Require Import Model.Base Model.Codec Proofs.CodecProofs Props.C17.
Check C17_chunking : forall chunks : list (list N), feed [] chunks = frames (concat chunks).
Check C17_partition_independent : forall c1 c2 : list (list N), concat c1 = concat c2 -> feed [] c1 = feed [] c2.
Check C17_writer : forall ms : list (list N), Forall no_nl ms -> frames (concat (map encode ms)) = (ms, []).
Print Assumptions C17_chunking.
Print Assumptions C17_partition_independent.
Print Assumptions C17_writer.
Print Assumptions C17_ids.
