From Tramp Require Import Model.Base Model.Fee Model.Config Props.C19.
Open Scope Z_scope.
Check C19_config : forall (o : opts) (c : conf),
  configure o = Some c <->
  (0 <= o_cltv_delta o <= 65535 /\ 0 <= o_policy_delta o <= 65535 /\ o_cltv_delta o < o_policy_delta o /\
   0 <= o_fee_base o <= 4294967295 /\ 0 <= o_fee_ppm o <= 4294967295 /\ 0 <= o_mpp_timeout o /\ 0 <= o_pay_timeout o) /\
  c = {| k_cltv_delta := Z.to_N (o_cltv_delta o);
         k_policy := {| fee_base := Z.to_N (o_fee_base o); fee_ppm := Z.to_N (o_fee_ppm o); pol_delta := Z.to_N (o_policy_delta o) |};
         k_mpp_s := Z.to_N (o_mpp_timeout o);
         k_allow_self := negb (o_no_self_hints o);
         k_retry_for := Z.to_N (Z.min (o_pay_timeout o) 65535) |}.
Print Assumptions C19_config.
Print Assumptions C19_refuses.
Print Assumptions C19_retry_capped.
