From Tramp Require Import Model.Base Model.Tlv Proofs.TlvProofs Check.TlvCheck Props.C18.
Check C18_total : forall bs : list N,
  from_bytes true bs <> Panic /\ try_from true bs <> Panic /\ get_tu64 bs <> Panic.
Check C18_decode_encode : forall bs : list N, valid_stream bs ->
  exists es, from_bytes true bs = Ok es /\ to_bytes es = bs /\ Forall wf_entry es.
Check C18_encode_decode : forall es : list tlv_entry, Forall wf_entry es ->
  from_bytes true (to_bytes es) = Ok es.
Check C18_tu64 : forall bs : list N,
  (len bs <= 8 -> get_tu64 bs = Ok (be_val bs)) /\ (8 < len bs -> get_tu64 bs = Err).
Check C18_monitor_grammar_sound : forall bs, valid_streamb bs = true -> valid_stream bs.
Check C18_model_passes_monitor : forall bs, bytes_ok bs -> monitor_d bs (model_dobs true bs) = true.
Print Assumptions C18_total.
Print Assumptions C18_decode_encode.
Print Assumptions C18_encode_decode.
Print Assumptions C18_tu64.
Print Assumptions C18_monitor_grammar_sound.
Print Assumptions C18_model_passes_monitor.
