#!/bin/bash
# Builds the framework from files on disk only (offline): Coq development (full .vo build),
# harness in both profiles against /repo's working tree.
set -e
cd "$(dirname "$0")"
export CARGO_NET_OFFLINE=true
mkdir -p .cache evidence
( cd coq && coq_makefile -f _CoqProject -o Makefile >/dev/null && timeout 3000 make -j16 )
cp /repo/Cargo.lock harness/Cargo.lock
( cd harness && CARGO_TARGET_DIR=../.cache/harness-target RUSTFLAGS="--cfg breez_trampoline_verif -Awarnings" cargo build --offline --quiet )
( cd harness && CARGO_TARGET_DIR=../.cache/harness-target RUSTFLAGS="--cfg breez_trampoline_verif -Awarnings" cargo build --offline --quiet --release )
echo setup done
